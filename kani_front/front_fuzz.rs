include!("FRONT_COMMON");

fn ci_prefix(b: &[u8], lit: &[u8]) -> bool {
    if b.len() < lit.len() {
        return false;
    }
    let mut ok = true;
    let mut k = 0;
    while k < NB {
        if k < lit.len() {
            let x = b[k] ^ lit[k];
            if x != 0 && x != 0x20 {
                ok = false;
            }
        }
        k += 1;
    }
    ok
}

/// fuzz/fuzz_targets/parse.rs parse_float on EVERY byte string of length <= 8:
/// nan / infinity / inf (xor-0x20 case folding as shipped), empty match => (0.0, bytes),
/// otherwise exactly the behaviour of the example front-end.
#[kani::proof]
#[kani::unwind(10)]
#[kani::stub(crate::parse::parse_float, ghost_library_parse_float)]
fn c19_front_fuzz() {
    let b: [u8; NB] = kani::any();
    let n: usize = kani::any();
    kani::assume(n <= NB);
    let s = &b[..n];
    let (r, rest): (Spy64, &[u8]) = parse_float::<Spy64>(s);
    let (neg, is, ie, fs, fe, ex, consumed) = ref_scan(s);
    let after_sign = &s[is.min(n)..];
    let nan_bits: u64 = 0x7FF8_0000_0000_0000;
    let inf_bits: u64 = 0x7FF0_0000_0000_0000;
    if ci_prefix(after_sign, b"NaN") {
        assert!(r == Spy64(if neg { Node::NegBits(nan_bits) } else { Node::Bits(nan_bits) }), "C19 nan literal");
        assert!(rest.len() == after_sign.len() - 3, "C19 nan consumes three letters");
        assert!(unsafe { LIB_CALLS } == 0);
    } else if ci_prefix(after_sign, b"Infinity") {
        assert!(r == Spy64(if neg { Node::NegBits(inf_bits) } else { Node::Bits(inf_bits) }), "C19 infinity literal");
        assert!(rest.len() == after_sign.len() - 8, "C19 infinity consumes eight letters");
    } else if ci_prefix(after_sign, b"inf") {
        assert!(r == Spy64(if neg { Node::NegBits(inf_bits) } else { Node::Bits(inf_bits) }), "C19 inf literal");
        assert!(rest.len() == after_sign.len() - 3, "C19 inf consumes three letters");
    } else if consumed == 0 {
        // nothing at all matched (not even a sign)
        assert!(r == Spy64(Node::Int(0)), "C19 empty match gives 0.0");
        assert!(rest.len() == n, "C19 empty match returns all bytes");
        assert!(unsafe { LIB_CALLS } == 0);
    } else {
        check_delegation(s, r, rest, neg, is, ie, fs, fe, ex, consumed);
    }
    kani::cover!(ci_prefix(after_sign, b"Infinity"));
    kani::cover!(ci_prefix(after_sign, b"NaN") && neg);
    kani::cover!(consumed == 0 && n > 0);
}
