include!("FRONT_COMMON");

/// examples/simple.rs parse_float on EVERY byte string of length <= 8.
#[kani::proof]
#[kani::unwind(10)]
#[kani::stub(crate::parse::parse_float, ghost_library_parse_float)]
fn c19_front_simple() {
    let b: [u8; NB] = kani::any();
    let n: usize = kani::any();
    kani::assume(n <= NB);
    let s = &b[..n];
    let (r, rest): (Spy64, &[u8]) = parse_float::<Spy64>(s);
    let (neg, is, ie, fs, fe, ex, consumed) = ref_scan(s);
    check_delegation(s, r, rest, neg, is, ie, fs, fe, ex, consumed);
    kani::cover!(consumed == n && n == NB);
    kani::cover!(consumed == 0 && n > 0);
    kani::cover!(neg && fe > fs && ex < 0);
}
