// Abstract float types for verifying code that is generic over `F: Float` (cfg(kani) only).
//
// `Spy64` / `Spy32` take every associated constant from the real f64 / f32 implementation,
// delegate the power look-up to the real one, and RECORD which IEEE operations the generic
// code performs on which operands instead of performing them.
#![allow(dead_code)]
use crate::num::Float;
use core::ops;

#[derive(Clone, Copy, PartialEq, PartialOrd, Debug)]
pub enum Node {
    /// from_u64(u)
    Int(u64),
    /// pow_fast_path(k)
    Pow(usize),
    /// Int(u) * Pow(k)
    MulIntPow(u64, usize),
    /// Int(u) / Pow(k)
    DivIntPow(u64, usize),
    /// from_bits(word)
    Bits(u64),
    /// -from_bits(word)
    NegBits(u64),
    /// -from_u64(u)
    NegInt(u64),
    /// anything else the generic code might compute (never expected)
    Other,
}

macro_rules! spy_float {
    ($spy:ident, $real:ty) => {
        #[derive(Clone, Copy, PartialEq, PartialOrd)]
        pub struct $spy(pub Node);
        impl ops::Add for $spy { type Output = Self; fn add(self, _: Self) -> Self { $spy(Node::Other) } }
        impl ops::AddAssign for $spy { fn add_assign(&mut self, _: Self) { self.0 = Node::Other } }
        impl ops::Sub for $spy { type Output = Self; fn sub(self, _: Self) -> Self { $spy(Node::Other) } }
        impl ops::SubAssign for $spy { fn sub_assign(&mut self, _: Self) { self.0 = Node::Other } }
        impl ops::Rem for $spy { type Output = Self; fn rem(self, _: Self) -> Self { $spy(Node::Other) } }
        impl ops::RemAssign for $spy { fn rem_assign(&mut self, _: Self) { self.0 = Node::Other } }
        impl ops::Neg for $spy {
            type Output = Self;
            fn neg(self) -> Self {
                match self.0 {
                    Node::Bits(u) => $spy(Node::NegBits(u)),
                    Node::Int(u) => $spy(Node::NegInt(u)),
                    _ => $spy(Node::Other),
                }
            }
        }
        impl ops::MulAssign for $spy { fn mul_assign(&mut self, _: Self) { self.0 = Node::Other } }
        impl ops::DivAssign for $spy { fn div_assign(&mut self, _: Self) { self.0 = Node::Other } }
        impl ops::Mul for $spy {
            type Output = Self;
            fn mul(self, rhs: Self) -> Self {
                match (self.0, rhs.0) {
                    (Node::Int(u), Node::Pow(k)) => $spy(Node::MulIntPow(u, k)),
                    _ => $spy(Node::Other),
                }
            }
        }
        impl ops::Div for $spy {
            type Output = Self;
            fn div(self, rhs: Self) -> Self {
                match (self.0, rhs.0) {
                    (Node::Int(u), Node::Pow(k)) => $spy(Node::DivIntPow(u, k)),
                    _ => $spy(Node::Other),
                }
            }
        }
        impl Float for $spy {
            const MAX_DIGITS: usize = <$real as Float>::MAX_DIGITS;
            const SIGN_MASK: u64 = <$real as Float>::SIGN_MASK;
            const EXPONENT_MASK: u64 = <$real as Float>::EXPONENT_MASK;
            const HIDDEN_BIT_MASK: u64 = <$real as Float>::HIDDEN_BIT_MASK;
            const MANTISSA_MASK: u64 = <$real as Float>::MANTISSA_MASK;
            const MANTISSA_SIZE: i32 = <$real as Float>::MANTISSA_SIZE;
            const EXPONENT_BIAS: i32 = <$real as Float>::EXPONENT_BIAS;
            const DENORMAL_EXPONENT: i32 = <$real as Float>::DENORMAL_EXPONENT;
            const MAX_EXPONENT: i32 = <$real as Float>::MAX_EXPONENT;
            const CARRY_MASK: u64 = <$real as Float>::CARRY_MASK;
            const INVALID_FP: i32 = <$real as Float>::INVALID_FP;
            const MAX_MANTISSA_FAST_PATH: u64 = <$real as Float>::MAX_MANTISSA_FAST_PATH;
            const INFINITE_POWER: i32 = <$real as Float>::INFINITE_POWER;
            const MIN_EXPONENT_ROUND_TO_EVEN: i32 = <$real as Float>::MIN_EXPONENT_ROUND_TO_EVEN;
            const MAX_EXPONENT_ROUND_TO_EVEN: i32 = <$real as Float>::MAX_EXPONENT_ROUND_TO_EVEN;
            const MINIMUM_EXPONENT: i32 = <$real as Float>::MINIMUM_EXPONENT;
            const SMALLEST_POWER_OF_TEN: i32 = <$real as Float>::SMALLEST_POWER_OF_TEN;
            const LARGEST_POWER_OF_TEN: i32 = <$real as Float>::LARGEST_POWER_OF_TEN;
            const MIN_EXPONENT_FAST_PATH: i32 = <$real as Float>::MIN_EXPONENT_FAST_PATH;
            const MAX_EXPONENT_FAST_PATH: i32 = <$real as Float>::MAX_EXPONENT_FAST_PATH;
            const MAX_EXPONENT_DISGUISED_FAST_PATH: i32 = <$real as Float>::MAX_EXPONENT_DISGUISED_FAST_PATH;
            fn from_u64(u: u64) -> Self { $spy(Node::Int(u)) }
            fn from_bits(u: u64) -> Self { $spy(Node::Bits(u)) }
            fn to_bits(self) -> u64 { 0 }
            unsafe fn pow_fast_path(exponent: usize) -> Self {
                // the REAL look-up is executed (bounds / memory safety are checked by Kani);
                // its value is the table entry, proved exact by c14_float_pow10_*.
                let _real: $real = unsafe { <$real as Float>::pow_fast_path(exponent) };
                $spy(Node::Pow(exponent))
            }
        }
    };
}
spy_float!(Spy64, f64);
spy_float!(Spy32, f32);

