// Executable specification functions shared by all Kani harness modules.
//
// RULES: plain Rust, no reference to any constant, table or function of the
// crate under verification.  Every IEEE parameter is spelled as a literal so
// that a changed constant in /repo cannot move the oracle with it.
//
// The same text is also consumed by Verus (see /verif/verus), where the
// functions are given their mathematical meaning.
#![allow(dead_code, unused_parens, clippy::all)]

/// IEEE-754 binary interchange format parameters, literal.
#[derive(Clone, Copy)]
pub struct Fmt {
    /// explicit significand bits (52 / 23)
    pub ms: u32,
    /// bias such that value(E>0) = (2^ms + f) * 2^(E - bias)  (1075 / 150)
    pub bias: i32,
    /// all-ones exponent field (2047 / 255)
    pub inf_e: u64,
}
pub const F64: Fmt = Fmt { ms: 52, bias: 1075, inf_e: 2047 };
pub const F32: Fmt = Fmt { ms: 23, bias: 150, inf_e: 255 };

#[inline]
pub fn pow2_128(n: u32) -> u128 {
    1u128 << n
}

/// `bits` is a well-formed non-negative encoding of format `f` that is finite or +inf
/// (no NaN, no sign, nothing above the format's width).
pub fn spec_is_finite_or_inf(f: Fmt, bits: u64) -> bool {
    let e = bits >> f.ms;
    let frac = bits & ((1u64 << f.ms) - 1);
    e < f.inf_e || (e == f.inf_e && frac == 0)
}

/// Round-to-nearest, ties-to-even, decided declaratively on the PACKED result.
///
/// The exact value is V = mant * 2^(exp - bias) with mant in [2^63, 2^64) and
/// exp in [-63, ...].  `bits` must be the encoding of the float nearest to V
/// (ties: even significand), +inf iff V >= (2^(ms+2) - 1) * 2^(inf_e - 1 - bias - 1).
pub fn spec_is_rne(f: Fmt, mant: u64, exp: i32, bits: u64) -> bool {
    spec_is_rne_sticky(f, mant, exp, false, bits)
}

/// As `spec_is_rne`, for the exact value V = (mant + eps) * 2^(exp - bias) where
/// eps = 0 when `sticky` is false and some unknown 0 < eps < 1 when it is true
/// (the answer does not depend on which eps: all midpoints are integers at this scale).
pub fn spec_is_rne_sticky(f: Fmt, mant: u64, exp: i32, sticky: bool, bits: u64) -> bool {
    if !(mant >> 63 == 1 && exp >= -63) {
        return false;
    }
    let ms = f.ms;
    let e_field = bits >> ms;
    let frac = bits & ((1u64 << ms) - 1);
    if e_field > f.inf_e {
        return false;
    }
    // overflow threshold T = (2^(ms+2) - 1) * 2^(t_exp - bias) with t_exp = inf_e - 2
    //   f64: (2^54-1) * 2^970  (bias 1075 => t_exp = 2045)
    let t_exp: i64 = f.inf_e as i64 - 2;
    let v_ge_threshold = {
        // mant * 2^exp >= (2^(ms+2)-1) * 2^t_exp ?
        let d = t_exp - exp as i64; // threshold scale relative to mant scale
        if d <= 0 {
            true // mant >= 2^63 > 2^(ms+2)
        } else if d >= 64 - (ms as i64 + 2) + 1 {
            // (2^(ms+2)-1) * 2^d >= 2^(ms+1) * 2^d >= 2^64 > mant
            false
        } else {
            (mant as u128) >= ((1u128 << (ms + 2)) - 1) << (d as u32)
        }
    };
    if e_field == f.inf_e {
        return frac == 0 && v_ge_threshold;
    }
    if v_ge_threshold {
        return false;
    }
    // finite result R = m_r * 2^(e_r - bias)
    let (m_r, e_r): (u128, i64) = if e_field == 0 {
        (frac as u128, 1)
    } else {
        ((frac as u128) + (1u128 << ms), e_field as i64)
    };
    // d = e_r - exp: R = m_r * 2^d in units of 2^(exp - bias).
    let d = e_r - exp as i64;
    // nearest float has d in [63-ms, 64-ms] when normal, and d = 1 - exp <= 64 when subnormal
    if d < (63 - ms as i64) || d > 64 {
        return false;
    }
    let d = d as u32;
    let v = mant as u128;
    // upper midpoint (2 m_r + 1) * 2^(d-1)
    let upper_mid = (2 * m_r + 1) << (d - 1);
    // lower midpoint
    let has_lower = m_r != 0;
    let lower_mid = if !has_lower {
        0
    } else if m_r == (1u128 << ms) && e_field > 1 {
        // lower neighbour is in the binade below (half spacing)
        (4 * m_r - 1) << (d - 2)
    } else {
        (2 * m_r - 1) << (d - 1)
    };
    let even = m_r & 1 == 0;
    let ok_hi = v < upper_mid || (v == upper_mid && even && !sticky);
    let ok_lo = !has_lower || v > lower_mid || (v == lower_mid && (even || sticky));
    ok_hi && ok_lo
}

/// Truncation: `bits` encodes the largest float not above V = mant*2^(exp-bias);
/// when V is at or above 2^(inf_e - bias + ms) (beyond every finite binade) the
/// saturated encodings (+inf or the largest finite) are both accepted.
pub fn spec_is_rtz(f: Fmt, mant: u64, exp: i32, bits: u64) -> bool {
    if !(mant >> 63 == 1 && exp >= -63) {
        return false;
    }
    let ms = f.ms;
    let e_field = bits >> ms;
    let frac = bits & ((1u64 << ms) - 1);
    if e_field > f.inf_e {
        return false;
    }
    // V >= 2^(inf_e - bias + ms)  <=>  exp + 63 >= inf_e + ms  (mant has exactly 64 bits)
    let overflow = (exp as i64 + 63) >= (f.inf_e as i64 + ms as i64);
    let max_finite = ((f.inf_e - 1) << ms) | ((1u64 << ms) - 1);
    if overflow {
        return (e_field == f.inf_e && frac == 0) || bits == max_finite;
    }
    if e_field == f.inf_e {
        return false;
    }
    let (m_r, e_r): (u128, i64) = if e_field == 0 {
        (frac as u128, 1)
    } else {
        ((frac as u128) + (1u128 << ms), e_field as i64)
    };
    let d = e_r - exp as i64;
    if d < (63 - ms as i64) || d > 64 {
        return false;
    }
    let d = d as u32;
    let v = mant as u128;
    // R <= V < R + spacing (the next float up is (m_r+1) * 2^d, also across binades)
    (m_r << d) <= v && v < ((m_r + 1) << d)
}

// ---------------------------------------------------------------------------
// Decimal-to-binary scaling

/// floor(log2(10^q)) for q in [-350, 310]   (Verus obligation c14_verus_log2_formula
/// proves the formula equals the mathematical floor on that range).
pub fn spec_log2_pow10(q: i32) -> i32 {
    ((q as i64 * 217706) >> 16) as i32
}

/// A 128-bit product P = hi:lo (hi >= 2^62) scaled by 2^e, as a 64-bit significand with
/// its top bit set, a binary exponent and a "lower bits non-zero" flag:
/// P * 2^e == (mant + eps) * 2^(e2), 0 <= eps < 1, eps != 0 iff sticky.
pub fn spec_norm128(hi: u64, lo: u64, e: i32) -> (u64, i32, bool) {
    if hi >> 63 == 1 {
        (hi, e + 64, lo != 0)
    } else {
        ((hi << 1) | (lo >> 63), e + 63, (lo << 1) != 0)
    }
}

/// Packed float `bits` is the round-to-nearest-even of the exact value
/// V = (mant + eps) * 2^e2 (mant has its top bit set; eps as in spec_norm128), for all
/// magnitudes: below half the smallest subnormal the answer must be +0.0.
pub fn spec_is_rne_value(f: Fmt, mant: u64, e2: i32, sticky: bool, bits: u64) -> bool {
    // biased exponent in the convention of spec_is_rne: V = mant * 2^(exp - bias)
    let exp = e2 as i64 + f.bias as i64;
    if exp < -63 {
        // V < 2^64 * 2^(-64 - bias) = 2^-bias = half the smallest subnormal
        bits == 0
    } else if exp > 4000 {
        bits == f.inf_e << f.ms
    } else {
        spec_is_rne_sticky(f, mant, exp as i32, sticky, bits)
    }
}
