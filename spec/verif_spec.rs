// Executable specification functions shared by all Kani harness modules.
//
// RULES: plain Rust, no reference to any constant, table or function of the
// crate under verification.  Every IEEE parameter is spelled as a literal so
// that a changed constant in /repo cannot move the oracle with it.
//
// The same text is also consumed by Verus (see /verif/verus), where the
// functions are given their mathematical meaning.
#![allow(dead_code, unused_parens, clippy::all)]

/// IEEE-754 binary interchange format parameters, literal.
#[derive(Clone, Copy)]
pub struct Fmt {
    /// explicit significand bits (52 / 23)
    pub ms: u32,
    /// bias such that value(E>0) = (2^ms + f) * 2^(E - bias)  (1075 / 150)
    pub bias: i32,
    /// all-ones exponent field (2047 / 255)
    pub inf_e: u64,
}
pub const F64: Fmt = Fmt { ms: 52, bias: 1075, inf_e: 2047 };
pub const F32: Fmt = Fmt { ms: 23, bias: 150, inf_e: 255 };

#[inline]
pub fn pow2_128(n: u32) -> u128 {
    1u128 << n
}

/// `bits` is a well-formed non-negative encoding of format `f` that is finite or +inf
/// (no NaN, no sign, nothing above the format's width).
pub fn spec_is_finite_or_inf(f: Fmt, bits: u64) -> bool {
    let e = bits >> f.ms;
    let frac = bits & ((1u64 << f.ms) - 1);
    e < f.inf_e || (e == f.inf_e && frac == 0)
}

/// Round-to-nearest, ties-to-even, decided declaratively on the PACKED result.
///
/// The exact value is V = mant * 2^(exp - bias) with mant in [2^63, 2^64) and
/// exp in [-63, ...].  `bits` must be the encoding of the float nearest to V
/// (ties: even significand), +inf iff V >= (2^(ms+2) - 1) * 2^(inf_e - 1 - bias - 1).
pub fn spec_is_rne(f: Fmt, mant: u64, exp: i32, bits: u64) -> bool {
    spec_is_rne_sticky(f, mant, exp, false, bits)
}

/// As `spec_is_rne`, for the exact value V = (mant + eps) * 2^(exp - bias) where
/// eps = 0 when `sticky` is false and some unknown 0 < eps < 1 when it is true
/// (the answer does not depend on which eps: all midpoints are integers at this scale).
pub fn spec_is_rne_sticky(f: Fmt, mant: u64, exp: i32, sticky: bool, bits: u64) -> bool {
    if !(mant >> 63 == 1 && exp >= -63) {
        return false;
    }
    let ms = f.ms;
    let e_field = bits >> ms;
    let frac = bits & ((1u64 << ms) - 1);
    if e_field > f.inf_e {
        return false;
    }
    // overflow threshold T = (2^(ms+2) - 1) * 2^(t_exp - bias) with t_exp = inf_e - 2
    //   f64: (2^54-1) * 2^970  (bias 1075 => t_exp = 2045)
    let t_exp: i64 = f.inf_e as i64 - 2;
    let v_ge_threshold = {
        // mant * 2^exp >= (2^(ms+2)-1) * 2^t_exp ?
        let d = t_exp - exp as i64; // threshold scale relative to mant scale
        if d <= 0 {
            true // mant >= 2^63 > 2^(ms+2)
        } else if d >= 64 - (ms as i64 + 2) + 1 {
            // (2^(ms+2)-1) * 2^d >= 2^(ms+1) * 2^d >= 2^64 > mant
            false
        } else {
            (mant as u128) >= ((1u128 << (ms + 2)) - 1) << (d as u32)
        }
    };
    if e_field == f.inf_e {
        return frac == 0 && v_ge_threshold;
    }
    if v_ge_threshold {
        return false;
    }
    // finite result R = m_r * 2^(e_r - bias)
    let (m_r, e_r): (u128, i64) = if e_field == 0 {
        (frac as u128, 1)
    } else {
        ((frac as u128) + (1u128 << ms), e_field as i64)
    };
    // d = e_r - exp: R = m_r * 2^d in units of 2^(exp - bias).
    let d = e_r - exp as i64;
    // nearest float has d in [63-ms, 64-ms] when normal, and d = 1 - exp <= 64 when subnormal
    if d < (63 - ms as i64) || d > 64 {
        return false;
    }
    let d = d as u32;
    let v = mant as u128;
    // upper midpoint (2 m_r + 1) * 2^(d-1)
    let upper_mid = (2 * m_r + 1) << (d - 1);
    // lower midpoint
    let has_lower = m_r != 0;
    let lower_mid = if !has_lower {
        0
    } else if m_r == (1u128 << ms) && e_field > 1 {
        // lower neighbour is in the binade below (half spacing)
        (4 * m_r - 1) << (d - 2)
    } else {
        (2 * m_r - 1) << (d - 1)
    };
    let even = m_r & 1 == 0;
    let ok_hi = v < upper_mid || (v == upper_mid && even && !sticky);
    let ok_lo = !has_lower || v > lower_mid || (v == lower_mid && (even || sticky));
    ok_hi && ok_lo
}

/// Truncation: `bits` encodes the largest float not above V = mant*2^(exp-bias);
/// when V is at or above 2^(inf_e - bias + ms) (beyond every finite binade) the
/// saturated encodings (+inf or the largest finite) are both accepted.
pub fn spec_is_rtz(f: Fmt, mant: u64, exp: i32, bits: u64) -> bool {
    if !(mant >> 63 == 1 && exp >= -63) {
        return false;
    }
    let ms = f.ms;
    let e_field = bits >> ms;
    let frac = bits & ((1u64 << ms) - 1);
    if e_field > f.inf_e {
        return false;
    }
    // V >= 2^(inf_e - bias + ms)  <=>  exp + 63 >= inf_e + ms  (mant has exactly 64 bits)
    let overflow = (exp as i64 + 63) >= (f.inf_e as i64 + ms as i64);
    let max_finite = ((f.inf_e - 1) << ms) | ((1u64 << ms) - 1);
    if overflow {
        return (e_field == f.inf_e && frac == 0) || bits == max_finite;
    }
    if e_field == f.inf_e {
        return false;
    }
    let (m_r, e_r): (u128, i64) = if e_field == 0 {
        (frac as u128, 1)
    } else {
        ((frac as u128) + (1u128 << ms), e_field as i64)
    };
    let d = e_r - exp as i64;
    if d < (63 - ms as i64) || d > 64 {
        return false;
    }
    let d = d as u32;
    let v = mant as u128;
    // R <= V < R + spacing (the next float up is (m_r+1) * 2^d, also across binades)
    (m_r << d) <= v && v < ((m_r + 1) << d)
}

// ---------------------------------------------------------------------------
// Decimal-to-binary scaling

/// floor(log2(10^q)) for q in [-350, 310]   (Verus obligation c14_verus_log2_formula
/// proves the formula equals the mathematical floor on that range).
pub fn spec_log2_pow10(q: i32) -> i32 {
    ((q as i64 * 217706) >> 16) as i32
}

/// A 128-bit product P = hi:lo (hi >= 2^62) scaled by 2^e, as a 64-bit significand with
/// its top bit set, a binary exponent and a "lower bits non-zero" flag:
/// P * 2^e == (mant + eps) * 2^(e2), 0 <= eps < 1, eps != 0 iff sticky.
pub fn spec_norm128(hi: u64, lo: u64, e: i32) -> (u64, i32, bool) {
    if hi >> 63 == 1 {
        (hi, e + 64, lo != 0)
    } else {
        ((hi << 1) | (lo >> 63), e + 63, (lo << 1) != 0)
    }
}

/// Packed float `bits` is the round-to-nearest-even of the exact value
/// V = (mant + eps) * 2^e2 (mant has its top bit set; eps as in spec_norm128), for all
/// magnitudes: below half the smallest subnormal the answer must be +0.0.
pub fn spec_is_rne_value(f: Fmt, mant: u64, e2: i32, sticky: bool, bits: u64) -> bool {
    // biased exponent in the convention of spec_is_rne: V = mant * 2^(exp - bias)
    let exp = e2 as i64 + f.bias as i64;
    if exp < -63 {
        // V < 2^64 * 2^(-64 - bias) = 2^-bias = half the smallest subnormal
        bits == 0
    } else if exp > 4000 {
        bits == f.inf_e << f.ms
    } else {
        spec_is_rne_sticky(f, mant, exp as i32, sticky, bits)
    }
}

// ---------------------------------------------------------------------------
// Reference natural numbers: fixed width, little-endian, W limbs of 64 bits (value semantics
// only - no length, no normalisation).  Used as the oracle of the big-integer contracts for
// operands small enough that every result fits W limbs.
pub const W: usize = 8;
pub type RefNat = [u64; W];

/// the natural number stored in a limb slice (len <= W), zero-extended
pub fn ref_from_slice(x: &[u64]) -> RefNat {
    let mut r = [0u64; W];
    let mut i = 0;
    while i < W {
        if i < x.len() {
            r[i] = x[i];
        }
        i += 1;
    }
    r
}

/// a + b ; second component: overflowed the W-limb width
pub fn ref_add(a: &RefNat, b: &RefNat) -> (RefNat, bool) {
    let mut r = [0u64; W];
    let mut carry: u128 = 0;
    let mut i = 0;
    while i < W {
        let s = a[i] as u128 + b[i] as u128 + carry;
        r[i] = s as u64;
        carry = s >> 64;
        i += 1;
    }
    (r, carry != 0)
}

/// a * 2^(64 n) ; second component: non-zero limbs were shifted out
pub fn ref_shl_limbs(a: &RefNat, n: usize) -> (RefNat, bool) {
    let mut r = [0u64; W];
    let mut lost = false;
    let mut i = 0;
    while i < W {
        if i + n < W {
            r[i + n] = a[i];
        } else if a[i] != 0 {
            lost = true;
        }
        i += 1;
    }
    (r, lost)
}

/// a * 2^n for 0 < n < 64
pub fn ref_shl_bits(a: &RefNat, n: u32) -> (RefNat, bool) {
    let mut r = [0u64; W];
    let mut prev: u64 = 0;
    let mut i = 0;
    while i < W {
        r[i] = (a[i] << n) | (prev >> (64 - n));
        prev = a[i];
        i += 1;
    }
    (r, (prev >> (64 - n)) != 0)
}

/// a * y where the 64x64->128 product is supplied by `mul` (so that an uninterpreted
/// product can be shared with the code under verification)
pub fn ref_mul_limb(a: &RefNat, y: u64, mul: fn(u64, u64) -> (u64, u64)) -> (RefNat, bool) {
    let mut r = [0u64; W];
    let mut carry: u64 = 0;
    let mut i = 0;
    while i < W {
        let (lo, hi) = if a[i] == 0 { (0, 0) } else { mul(a[i], y) };
        let s = lo as u128 + carry as u128;
        r[i] = s as u64;
        // hi + carry-out cannot overflow: hi <= 2^64 - 2
        carry = hi + (s >> 64) as u64;
        i += 1;
    }
    (r, carry != 0)
}

pub fn ref_eq(a: &RefNat, b: &RefNat) -> bool {
    let mut i = 0;
    let mut ok = true;
    while i < W {
        if a[i] != b[i] {
            ok = false;
        }
        i += 1;
    }
    ok
}

pub fn ref_is_zero(a: &RefNat) -> bool {
    let z = [0u64; W];
    ref_eq(a, &z)
}

/// number of bits of the value (0 for 0)
pub fn ref_bit_length(a: &RefNat) -> u32 {
    let mut bl: u32 = 0;
    let mut i = 0;
    while i < W {
        if a[i] != 0 {
            bl = (i as u32) * 64 + (64 - a[i].leading_zeros());
        }
        i += 1;
    }
    bl
}

/// bit `k` of the value
pub fn ref_bit(a: &RefNat, k: u32) -> bool {
    let limb = (k / 64) as usize;
    limb < W && (a[limb] >> (k % 64)) & 1 == 1
}

/// (top 64 bits of the value, any lower bit set) for a non-zero value:
/// top = floor(value / 2^(bitlen-64)) (value * 2^(64-bitlen) if bitlen < 64)
pub fn ref_hi64(a: &RefNat) -> (u64, bool) {
    let bl = ref_bit_length(a);
    if bl == 0 {
        return (0, false);
    }
    let mut top: u64 = 0;
    let mut sticky = false;
    // assemble bit by bit from the definition
    let mut k: u32 = 0;
    while k < 64 {
        // bit (63 - k) of top is bit (bl - 1 - k) of the value
        if bl >= 1 + k && ref_bit(a, bl - 1 - k) {
            top |= 1u64 << (63 - k);
        }
        k += 1;
    }
    let mut i = 0;
    while i < W {
        // lower bits: everything below bit (bl - 64)
        if bl > 64 {
            let cut = bl - 64; // bits [0, cut) are "lower"
            let lo_bit = (i as u32) * 64;
            if lo_bit + 64 <= cut {
                if a[i] != 0 {
                    sticky = true;
                }
            } else if lo_bit < cut {
                let nb = cut - lo_bit; // 1..63 low bits of this limb
                if a[i] & ((1u64 << nb) - 1) != 0 {
                    sticky = true;
                }
            }
        }
        i += 1;
    }
    (top, sticky)
}

// ---------------------------------------------------------------------------
// Digit accumulation (specification of parse::parse_number)

/// For digit strings `int` (no leading zero) and `frac` and exponent `e`, the decimal value is
/// D * 10^(e - frac.len()) with D the digit string int ++ frac.  The retained significand is
/// the first 19 SIGNIFICANT digits (leading fraction zeros of a number without integer part
/// are not significant); `many` says that further significant digits were dropped; the
/// exponent is scaled so that  mantissa * 10^exponent <= value < (mantissa + 1) * 10^exponent
/// with equality on the left when nothing was dropped.  Exponent arithmetic saturates.
pub fn spec_parse_number(int: &[u8], frac: &[u8], e: i32) -> (u64, i32, bool) {
    let ilen = int.len();
    let total = ilen + frac.len();
    let mut s = 0;
    if ilen == 0 {
        while s < frac.len() && frac[s] == b'0' {
            s += 1;
        }
    }
    let cut = if s + 19 < total { s + 19 } else { total };
    let mut m: u64 = 0;
    let mut k = s;
    while k < cut {
        let d = if k < ilen { int[k] } else { frac[k - ilen] };
        m = m * 10 + (d - b'0') as u64;
        k += 1;
    }
    let many = total - s > 19;
    let ex = e as i64 + ilen as i64 - cut as i64;
    let ex = if ex > i32::MAX as i64 {
        i32::MAX
    } else if ex < i32::MIN as i64 {
        i32::MIN
    } else {
        ex as i32
    };
    (m, ex, many)
}
