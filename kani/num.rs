// Harness module appended to src/num.rs.  Contracts for the Float field helpers (C17)
// and the per-format constants every threshold is derived from.

/// f64: for EVERY 64-bit pattern: from_bits/to_bits lossless, subnormal detection exact,
/// mantissa * 2^exponent is the magnitude of every finite value.
#[kani::proof]
fn c17_f64_fields() {
    let bits: u64 = kani::any();
    let x = <f64 as Float>::from_bits(bits);
    assert!(<f64 as Float>::to_bits(x) == bits, "C17 f64 bits round trip");
    let e_field = (bits >> 52) & 0x7FF;
    let frac = bits & ((1u64 << 52) - 1);
    assert!(x.is_denormal() == (e_field == 0), "C17 f64 is_denormal");
    if e_field != 0x7FF {
        let (m, e) = if e_field == 0 { (frac, 1 - 1075) } else { (frac + (1u64 << 52), e_field as i32 - 1075) };
        assert!(x.mantissa() == m, "C17 f64 mantissa");
        assert!(x.exponent() == e, "C17 f64 exponent");
    }
    kani::cover!(e_field == 0 && frac != 0);
    kani::cover!(e_field == 0x7FF && frac != 0, "NaN payloads are covered");
    kani::cover!(bits >> 63 == 1);
}

/// f32: the same for every 32-bit pattern.
#[kani::proof]
fn c17_f32_fields() {
    let b32: u32 = kani::any();
    let bits = b32 as u64;
    let x = <f32 as Float>::from_bits(bits);
    assert!(<f32 as Float>::to_bits(x) == bits, "C17 f32 bits round trip");
    assert!(f32::to_bits(x) == b32, "C17 f32 native bits");
    let e_field = (bits >> 23) & 0xFF;
    let frac = bits & ((1u64 << 23) - 1);
    assert!(x.is_denormal() == (e_field == 0), "C17 f32 is_denormal");
    if e_field != 0xFF {
        let (m, e) = if e_field == 0 { (frac, 1 - 150) } else { (frac + (1u64 << 23), e_field as i32 - 150) };
        assert!(x.mantissa() == m, "C17 f32 mantissa");
        assert!(x.exponent() == e, "C17 f32 exponent");
    }
    kani::cover!(e_field == 0 && frac != 0);
    kani::cover!(e_field == 0xFF && frac != 0);
}

/// Per-format constants equal their IEEE-754 definitions (literals, not derived from the crate).
#[kani::proof]
fn c17_constants() {
    assert!(<f64 as Float>::SIGN_MASK == 1u64 << 63);
    assert!(<f64 as Float>::EXPONENT_MASK == 0x7FFu64 << 52);
    assert!(<f64 as Float>::HIDDEN_BIT_MASK == 1u64 << 52);
    assert!(<f64 as Float>::MANTISSA_MASK == (1u64 << 52) - 1);
    assert!(<f64 as Float>::MANTISSA_SIZE == 52);
    assert!(<f64 as Float>::EXPONENT_BIAS == 1075);
    assert!(<f64 as Float>::DENORMAL_EXPONENT == -1074);
    assert!(<f64 as Float>::MAX_EXPONENT == 972);
    assert!(<f64 as Float>::CARRY_MASK == 1u64 << 53);
    assert!(<f64 as Float>::INFINITE_POWER == 2047);
    assert!(<f64 as Float>::MAX_MANTISSA_FAST_PATH == 1u64 << 53);
    assert!(<f64 as Float>::MINIMUM_EXPONENT == -1023);
    // INVALID_FP is an internal tag without numeric meaning: only required to be the same negative bias for both formats
    assert!(<f64 as Float>::INVALID_FP == <f32 as Float>::INVALID_FP && <f64 as Float>::INVALID_FP <= -4096);

    assert!(<f32 as Float>::SIGN_MASK == 1u64 << 31);
    assert!(<f32 as Float>::EXPONENT_MASK == 0xFFu64 << 23);
    assert!(<f32 as Float>::HIDDEN_BIT_MASK == 1u64 << 23);
    assert!(<f32 as Float>::MANTISSA_MASK == (1u64 << 23) - 1);
    assert!(<f32 as Float>::MANTISSA_SIZE == 23);
    assert!(<f32 as Float>::EXPONENT_BIAS == 150);
    assert!(<f32 as Float>::DENORMAL_EXPONENT == -149);
    assert!(<f32 as Float>::MAX_EXPONENT == 105);
    assert!(<f32 as Float>::CARRY_MASK == 1u64 << 24);
    assert!(<f32 as Float>::INFINITE_POWER == 255);
    assert!(<f32 as Float>::MAX_MANTISSA_FAST_PATH == 1u64 << 24);
    assert!(<f32 as Float>::MINIMUM_EXPONENT == -127);
}

/// from_u64 is the exact conversion whenever the integer fits the significand
/// (u <= 2^53 / 2^24): decoded field pair reproduces u exactly.
#[kani::proof]
fn c17_from_u64_exact_f64() {
    let u: u64 = kani::any();
    kani::assume(u <= 1u64 << 53);
    let x = <f64 as Float>::from_u64(u);
    let bits = x.to_bits();
    if u == 0 {
        assert!(bits == 0, "C17 from_u64(0) == +0.0");
    } else {
        let e_field = (bits >> 52) & 0x7FF;
        let m = (bits & ((1u64 << 52) - 1)) + (1u64 << 52);
        let e = e_field as i32 - 1075;
        assert!(bits >> 63 == 0 && e_field != 0 && e_field != 0x7FF);
        assert!(e <= 1 && e >= -52, "exponent in range");
        // m * 2^e == u exactly
        if e >= 0 {
            assert!((m as u128) << (e as u32) == u as u128, "C17 from_u64 exact");
        } else {
            assert!(m & ((1u64 << ((-e) as u32)) - 1) == 0 && (m >> ((-e) as u32)) == u, "C17 from_u64 exact");
        }
    }
    kani::cover!(u == 1u64 << 53);
    kani::cover!(u == 1);
}

#[kani::proof]
fn c17_from_u64_exact_f32() {
    let u: u64 = kani::any();
    kani::assume(u <= 1u64 << 24);
    let x = <f32 as Float>::from_u64(u);
    let bits = <f32 as Float>::to_bits(x);
    if u == 0 {
        assert!(bits == 0, "C17 from_u64(0) == +0.0");
    } else {
        let e_field = (bits >> 23) & 0xFF;
        let m = (bits & ((1u64 << 23) - 1)) + (1u64 << 23);
        let e = e_field as i32 - 150;
        assert!(bits >> 31 == 0 && e_field != 0 && e_field != 0xFF);
        assert!(e <= 1 && e >= -23, "exponent in range");
        if e >= 0 {
            assert!((m as u128) << (e as u32) == u as u128, "C17 from_u64 exact");
        } else {
            assert!(m & ((1u64 << ((-e) as u32)) - 1) == 0 && (m >> ((-e) as u32)) == u, "C17 from_u64 exact");
        }
    }
    kani::cover!(u == 1u64 << 24);
}

// ---------------------------------------------------------------- power look-ups (C14, C08)

fn pow_u128(base: u128, n: usize) -> u128 {
    let mut p: u128 = 1;
    let mut i = 0;
    while i < n {
        p *= base;
        i += 1;
    }
    p
}

/// f64::pow_fast_path(k), k in 0..=22, is EXACTLY 10^k (decoded from the bits), in every
/// configuration that does not go through std's powf.
#[kani::proof]
#[kani::unwind(24)]
fn c14_float_pow10_f64() {
    let k: usize = kani::any();
    kani::assume(k <= 22);
    let x: f64 = unsafe { <f64 as Float>::pow_fast_path(k) };
    let bits = x.to_bits();
    let e_field = (bits >> 52) & 0x7FF;
    assert!(bits >> 63 == 0 && e_field != 0 && e_field != 0x7FF);
    let m = ((bits & ((1u64 << 52) - 1)) + (1u64 << 52)) as u128;
    let e = e_field as i32 - 1075;
    let p = pow_u128(10, k);
    if e >= 0 {
        assert!(e <= 40 && (m << (e as u32)) == p, "C14 f64 10^k exact");
    } else {
        let s = (-e) as u32;
        assert!(s <= 52 && m & ((1u128 << s) - 1) == 0 && (m >> s) == p, "C14 f64 10^k exact");
    }
    kani::cover!(k == 22);
    kani::cover!(k == 0);
}

#[kani::proof]
#[kani::unwind(12)]
fn c14_float_pow10_f32() {
    let k: usize = kani::any();
    kani::assume(k <= 10);
    let x: f32 = unsafe { <f32 as Float>::pow_fast_path(k) };
    let bits = f32::to_bits(x) as u64;
    let e_field = (bits >> 23) & 0xFF;
    assert!(bits >> 31 == 0 && e_field != 0 && e_field != 0xFF);
    let m = ((bits & ((1u64 << 23) - 1)) + (1u64 << 23)) as u128;
    let e = e_field as i32 - 150;
    let p = pow_u128(10, k);
    if e >= 0 {
        assert!(e <= 40 && (m << (e as u32)) == p, "C14 f32 10^k exact");
    } else {
        let s = (-e) as u32;
        assert!(s <= 23 && m & ((1u128 << s) - 1) == 0 && (m >> s) == p, "C14 f32 10^k exact");
    }
    kani::cover!(k == 10);
}

/// int_pow_fast_path(k, radix) == radix^k for every index a caller can pass
/// (5: k <= 27, 10: k <= 19) -- table look-up in default builds, u64::pow in compact builds.
#[kani::proof]
#[kani::unwind(29)]
fn c14_int_pow_fast_path() {
    let k: usize = kani::any();
    if kani::any() {
        kani::assume(k <= 27);
        let v = unsafe { int_pow_fast_path(k, FastPathRadix::Five) };
        assert!(v as u128 == pow_u128(5, k), "C14 int_pow_fast_path(k, 5) == 5^k");
        kani::cover!(k == 27);
    } else {
        kani::assume(k <= 19);
        let v = unsafe { int_pow_fast_path(k, FastPathRadix::Ten) };
        assert!(v as u128 == pow_u128(10, k), "C14 int_pow_fast_path(k, 10) == 10^k");
        kani::cover!(k == 19);
    }
}

/// compact configurations compute the float powers on demand (libm's powd / powf without std):
/// each of the 23 + 11 calls the fast path can make is evaluated with a CONCRETE exponent and
/// must give exactly 10^k.
fn check_pow10_f64(k: usize) {
    let x: f64 = unsafe { <f64 as Float>::pow_fast_path(k) };
    let bits = x.to_bits();
    let e_field = (bits >> 52) & 0x7FF;
    let m = ((bits & ((1u64 << 52) - 1)) + (1u64 << 52)) as u128;
    let e = e_field as i32 - 1075;
    let p = pow_u128(10, k);
    assert!(bits >> 63 == 0 && e_field != 0 && e_field != 0x7FF);
    if e >= 0 {
        assert!(e <= 40 && (m << (e as u32)) == p, "C14 f64 10^k exact (on-demand power)");
    } else {
        let s = (-e) as u32;
        assert!(s <= 52 && m & ((1u128 << s) - 1) == 0 && (m >> s) == p, "C14 f64 10^k exact (on-demand power)");
    }
}

fn check_pow10_f32(k: usize) {
    let x: f32 = unsafe { <f32 as Float>::pow_fast_path(k) };
    let bits = f32::to_bits(x) as u64;
    let e_field = (bits >> 23) & 0xFF;
    let m = ((bits & ((1u64 << 23) - 1)) + (1u64 << 23)) as u128;
    let e = e_field as i32 - 150;
    let p = pow_u128(10, k);
    assert!(bits >> 31 == 0 && e_field != 0 && e_field != 0xFF);
    if e >= 0 {
        assert!(e <= 40 && (m << (e as u32)) == p, "C14 f32 10^k exact (on-demand power)");
    } else {
        let s = (-e) as u32;
        assert!(s <= 23 && m & ((1u128 << s) - 1) == 0 && (m >> s) == p, "C14 f32 10^k exact (on-demand power)");
    }
}

/// no_std + compact: every power the fast path can request from the bundled libm
/// (powd(10, 0..=22), powf(10, 0..=10)), evaluated with concrete exponents.
#[cfg(all(feature = "compact", not(feature = "std")))]
#[kani::proof]
#[kani::unwind(70)]
fn c14_float_pow10_ondemand_libm() {
    let mut k = 0;
    while k <= 22 {
        check_pow10_f64(k);
        k += 1;
    }
    let mut k = 0;
    while k <= 10 {
        check_pow10_f32(k);
        k += 1;
    }
}
