// Harness module appended to src/mask.rs.  Contracts for the bit-mask helpers (C18).

/// lower_n_mask(n) == 2^n - 1 for every width 0..=64
#[kani::proof]
fn c18_mask_lower_n_mask() {
    let n: u64 = kani::any();
    kani::assume(n <= 64);
    assert!(lower_n_mask(n) as u128 == (1u128 << n) - 1, "C18 lower_n_mask == 2^n - 1");
    kani::cover!(n == 64);
    kani::cover!(n == 0);
}

/// lower_n_halfway(n) == 2^(n-1) for n in 1..=64, 0 for n == 0
#[kani::proof]
fn c18_mask_lower_n_halfway() {
    let n: u64 = kani::any();
    kani::assume(n <= 64);
    let expect: u128 = if n == 0 { 0 } else { 1u128 << (n - 1) };
    assert!(lower_n_halfway(n) as u128 == expect, "C18 lower_n_halfway == 2^(n-1)");
    kani::cover!(n == 64);
    kani::cover!(n == 0);
}

/// nth_bit(n) == 2^n for n in 0..=63
#[kani::proof]
fn c18_mask_nth_bit() {
    let n: u64 = kani::any();
    kani::assume(n < 64);
    assert!(nth_bit(n) as u128 == 1u128 << n, "C18 nth_bit == 2^n");
    kani::cover!(n == 63);
}
