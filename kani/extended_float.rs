// Harness module appended to src/extended_float.rs (C17: packing).

/// extended_to_float::<f64>: for every (fraction < 2^52, biased exponent 0..=2047)
/// the float has exactly those fields.
#[kani::proof]
fn c17_pack_f64() {
    let mant: u64 = kani::any();
    let exp: i32 = kani::any();
    kani::assume(mant < (1u64 << 52));
    kani::assume(exp >= 0 && exp <= 2047);
    let x: f64 = extended_to_float::<f64>(ExtendedFloat { mant, exp });
    assert!(f64::to_bits(x) == ((exp as u64) << 52) | mant, "C17 pack f64 fields");
    kani::cover!(exp == 2047 && mant == 0);
    kani::cover!(exp == 0 && mant != 0);
}

#[kani::proof]
fn c17_pack_f32() {
    let mant: u64 = kani::any();
    let exp: i32 = kani::any();
    kani::assume(mant < (1u64 << 23));
    kani::assume(exp >= 0 && exp <= 255);
    let x: f32 = extended_to_float::<f32>(ExtendedFloat { mant, exp });
    assert!(f32::to_bits(x) as u64 == ((exp as u64) << 23) | mant, "C17 pack f32 fields");
    kani::cover!(exp == 255 && mant == 0);
}
