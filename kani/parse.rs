// Harness module appended to src/parse.rs.
// Contracts for parse_number / parse_number_fast / into_i32 / add_digit (P-NUM) and the
// dispatch of parse_float / moderate_path (G-DISPATCH).   C01 C02 C04 C06 C07 C10 C16
use crate::verif_spec::*;
use crate::verif_spy::*;

fn any_digits<const N: usize>() -> [u8; N] {
    let a: [u8; N] = kani::any();
    let mut i = 0;
    while i < N {
        kani::assume(a[i] >= b'0' && a[i] <= b'9');
        i += 1;
    }
    a
}

/// parse_number on an integer part of `ilen` digits (no leading zero) and a fraction of
/// `flen` digits (all symbolic), EVERY i32 exponent: equals the specification.
fn parse_number_case(ilen: usize, flen: usize) {
    parse_number_case_z(ilen, flen, usize::MAX)
}

/// `z` (when not usize::MAX) fixes the number of leading fraction zeros (case split that keeps
/// the zero-skipping loops of code and specification on one path each).
fn parse_number_case_z(ilen: usize, flen: usize, z: usize) {
    let int: [u8; 24] = any_digits();
    let mut frac: [u8; 24] = any_digits();
    let e: i32 = kani::any();
    kani::assume(ilen == 0 || int[0] != b'0');
    if z != usize::MAX {
        // concrete zero prefix and a concrete first significant digit ('7'): one control path
        // through the zero-skipping loops; every other digit stays symbolic
        let mut k = 0;
        while k < 24 {
            if k < z && k < flen {
                frac[k] = b'0';
            }
            k += 1;
        }
        if z < flen {
            frac[z] = b'7';
        }
    }
    let num = parse_number(int[..ilen].iter(), frac[..flen].iter(), e);
    let (m, ex, many) = spec_parse_number(&int[..ilen], &frac[..flen], e);
    assert!(num.mantissa == m, "P-NUM mantissa = first 19 significant digits");
    assert!(num.many_digits == many, "P-NUM many_digits <=> a 20th significant digit exists");
    assert!(num.exponent == ex, "P-NUM exponent = e + integer digits dropped - fraction digits consumed (saturating)");
    assert!(num.mantissa < 10_000_000_000_000_000_000, "P-NUM mantissa < 10^19");
}

// one harness per digit-count shape (so they run in parallel)
macro_rules! pnum {
    ($name:ident, $i:expr, $f:expr) => {
        #[kani::proof]
        #[kani::unwind(26)]
        fn $name() {
            parse_number_case($i, $f);
        }
    };
    ($name:ident, $i:expr, $f:expr, $z:expr) => {
        #[kani::proof]
        #[kani::unwind(26)]
        fn $name() {
            parse_number_case_z($i, $f, $z);
        }
    };
}
// integer only
pnum!(pnum_i0_f0, 0, 0);
pnum!(pnum_i1_f0, 1, 0);
pnum!(pnum_i18_f0, 18, 0);
pnum!(pnum_i19_f0, 19, 0);
pnum!(pnum_i20_f0, 20, 0);
pnum!(pnum_i21_f0, 21, 0);
pnum!(pnum_i23_f0, 23, 0);
// fraction only: (fraction length, number of leading zeros)
pnum!(pnum_i0_f1_z0, 0, 1, 0);
pnum!(pnum_i0_f1_z1, 0, 1, 1);
pnum!(pnum_i0_f2_z1, 0, 2, 1);
pnum!(pnum_i0_f19_z0, 0, 19, 0);
pnum!(pnum_i0_f19_z5, 0, 19, 5);
pnum!(pnum_i0_f19_z19, 0, 19, 19);
pnum!(pnum_i0_f20_z0, 0, 20, 0);
pnum!(pnum_i0_f20_z1, 0, 20, 1);
pnum!(pnum_i0_f20_z20, 0, 20, 20);
pnum!(pnum_i0_f21_z1, 0, 21, 1);
pnum!(pnum_i0_f21_z2, 0, 21, 2);
pnum!(pnum_i0_f23_z0, 0, 23, 0);
pnum!(pnum_i0_f23_z3, 0, 23, 3);
pnum!(pnum_i0_f23_z4, 0, 23, 4);
pnum!(pnum_i0_f23_z5, 0, 23, 5);
pnum!(pnum_i0_f23_z22, 0, 23, 22);
// mixed, around the 19/20 digit boundary
pnum!(pnum_i1_f1, 1, 1);
pnum!(pnum_i1_f18, 1, 18);
pnum!(pnum_i1_f19, 1, 19);
pnum!(pnum_i1_f20, 1, 20);
pnum!(pnum_i10_f9, 10, 9);
pnum!(pnum_i10_f10, 10, 10);
pnum!(pnum_i10_f12, 10, 12);
pnum!(pnum_i18_f1, 18, 1);
pnum!(pnum_i18_f2, 18, 2);
pnum!(pnum_i18_f4, 18, 4);
pnum!(pnum_i19_f1, 19, 1);
pnum!(pnum_i19_f3, 19, 3);
pnum!(pnum_i20_f1, 20, 1);
pnum!(pnum_i21_f3, 21, 3);
pnum!(pnum_i5_f19, 5, 19);

/// into_i32 clamps, add_digit is checked decimal accumulation.
#[kani::proof]
fn pnum_into_i32_add_digit() {
    let v: usize = kani::any();
    let r = into_i32(v);
    assert!(r as i64 == if v > i32::MAX as usize { i32::MAX as i64 } else { v as i64 }, "P-NUM into_i32 clamps");
    let x: u64 = kani::any();
    let d: u8 = kani::any();
    kani::assume(d <= 9);
    let wide = x as u128 * 10 + d as u128;
    assert!(add_digit(x, d) == if wide > u64::MAX as u128 { None } else { Some(wide as u64) }, "add_digit checked");
}

// ---------------------------------------------------------------- dispatch (parse_float)
//
// parse_float is generic over F.  It is instantiated with the abstract Spy float (constants
// of the real f64/f32), and its callees parse_number / moderate_path / slow are replaced by
// ghost recorders that return symbolic results constrained by the callees' own contracts.

static mut G_NUM: Number = Number { exponent: 0, mantissa: 0, many_digits: false };
static mut G_MOD: ExtendedFloat = ExtendedFloat { mant: 0, exp: 0 };
static mut G_SLOW: ExtendedFloat = ExtendedFloat { mant: 0, exp: 0 };
static mut G_MOD_CALLS: u32 = 0;
static mut G_SLOW_CALLS: u32 = 0;
static mut G_SLOW_ARGS_OK: bool = false;
static mut G_INT: [u8; 2] = [0; 2];
static mut G_FRAC: [u8; 2] = [0; 2];

fn ghost_parse_number<'a, Iter1, Iter2>(_integer: Iter1, _fraction: Iter2, _exponent: i32) -> Number
where
    Iter1: Iterator<Item = &'a u8> + Clone,
    Iter2: Iterator<Item = &'a u8> + Clone,
{
    unsafe { G_NUM }
}

fn ghost_moderate_path<F: Float>(num: &Number) -> ExtendedFloat {
    unsafe {
        G_MOD_CALLS += 1;
        assert!(*num == G_NUM, "G-DISPATCH moderate path receives the parsed number");
        G_MOD
    }
}

fn ghost_slow<'a, F, Iter1, Iter2>(num: Number, fp: ExtendedFloat, integer: Iter1, fraction: Iter2) -> ExtendedFloat
where
    F: Float,
    Iter1: Iterator<Item = &'a u8> + Clone,
    Iter2: Iterator<Item = &'a u8> + Clone,
{
    unsafe {
        G_SLOW_CALLS += 1;
        // un-biased by exactly -INVALID_FP, significand untouched, the ORIGINAL digits
        let mut ok = num == G_NUM && fp.mant == G_MOD.mant && fp.exp as i64 == G_MOD.exp as i64 - F::INVALID_FP as i64;
        let mut it = integer;
        ok = ok && it.next() == Some(&G_INT[0]) && it.next() == Some(&G_INT[1]) && it.next().is_none();
        let mut ft = fraction;
        ok = ok && ft.next() == Some(&G_FRAC[0]) && ft.next() == Some(&G_FRAC[1]) && ft.next().is_none();
        G_SLOW_ARGS_OK = ok;
        G_SLOW
    }
}

macro_rules! dispatch_harness {
    ($name:ident, $spy:ident, $ms:expr, $inf:expr) => {
        #[kani::proof]
        #[kani::stub(parse_number, ghost_parse_number)]
        #[kani::stub(moderate_path, ghost_moderate_path)]
        #[kani::stub(slow, ghost_slow)]
        fn $name() {
            let num = Number { exponent: kani::any(), mantissa: kani::any(), many_digits: kani::any() };
            let md = ExtendedFloat { mant: kani::any(), exp: kani::any() };
            let sl = ExtendedFloat { mant: kani::any(), exp: kani::any() };
            // contracts of the callees (C11 shape / slow's packing contract): definite results have
            // fields in range; a declined estimate has an exponent biased by -32768
            kani::assume(md.exp < 0 || (md.exp <= $inf && md.mant <= 1u64 << $ms));
            kani::assume(md.exp >= 0 || md.exp >= <$spy as Float>::INVALID_FP - 200);
            kani::assume(sl.exp >= 0 && sl.exp <= $inf && sl.mant <= 1u64 << $ms);
            let int: [u8; 2] = kani::any();
            let frac: [u8; 2] = kani::any();
            unsafe {
                G_NUM = num;
                G_MOD = md;
                G_SLOW = sl;
                G_INT = int;
                G_FRAC = frac;
            }
            let e: i32 = kani::any();
            let r: $spy = unsafe { parse_float::<$spy, _, _>(G_INT.iter(), G_FRAC.iter(), e) };
            let fast = num.try_fast_path::<$spy>();
            unsafe {
                if let Some(v) = fast {
                    assert!(r == v, "G-DISPATCH fast-path value returned as is");
                    assert!(G_MOD_CALLS == 0 && G_SLOW_CALLS == 0, "G-DISPATCH nothing else runs after the fast path");
                } else if md.exp >= 0 {
                    assert!(G_MOD_CALLS == 1 && G_SLOW_CALLS == 0, "G-DISPATCH definite moderate result is final");
                    assert!(r == $spy(Node::Bits(md.mant | ((md.exp as u64) << $ms))), "G-DISPATCH definite result packed unchanged");
                } else {
                    assert!(G_MOD_CALLS == 1 && G_SLOW_CALLS == 1, "G-DISPATCH declined => exactly one slow-path call");
                    assert!(G_SLOW_ARGS_OK, "G-DISPATCH slow path gets the number, the un-biased estimate and the original digits");
                    assert!(r == $spy(Node::Bits(sl.mant | ((sl.exp as u64) << $ms))), "G-DISPATCH slow result packed unchanged");
                }
            }
            kani::cover!(fast.is_some());
            kani::cover!(fast.is_none() && md.exp >= 0);
            kani::cover!(fast.is_none() && md.exp < 0);
        }
    };
}
dispatch_harness!(gdispatch_parse_float_f64, Spy64, 52, 2047);
dispatch_harness!(gdispatch_parse_float_f32, Spy32, 23, 255);

/// moderate_path is the configuration's algorithm (Eisel-Lemire or Bellerophon), unchanged.
#[cfg(not(feature = "compact"))]
#[kani::proof]
fn gdispatch_moderate_is_lemire() {
    let num = Number { exponent: kani::any(), mantissa: kani::any(), many_digits: false };
    kani::assume(num.exponent >= 0 && num.exponent <= 5 && num.mantissa < 1000);
    assert!(moderate_path::<f64>(&num) == lemire::<f64>(&num));
    assert!(moderate_path::<f32>(&num) == lemire::<f32>(&num));
}

// ---------------------------------------------------------------- C15 / C16 entry points
// Entry harnesses whose GOTO programs are analysed statically (call-graph closure) for the
// allocation frame (C15); they also serve as no-panic checks on tiny inputs.
macro_rules! c15_entry {
    ($name:ident, $t:ty) => {
        #[kani::proof]
        #[kani::unwind(4)]
        fn $name() {
            let int: [u8; 2] = any_digits();
            let frac: [u8; 2] = any_digits();
            let e: i32 = kani::any();
            kani::assume(int[0] != b'0');
            let x: $t = parse_float::<$t, _, _>(int.iter(), frac.iter(), e);
            let _ = x;
        }
    };
}
c15_entry!(c15_entry_f64, f64);
c15_entry!(c15_entry_f32, f32);

// ---------------------------------------------------------------- C16: purity

/// A hand-written cloneable forward iterator over a byte slice (not a std adaptor).
#[derive(Clone)]
struct Plain<'a> {
    s: &'a [u8],
    i: usize,
}
impl<'a> Iterator for Plain<'a> {
    type Item = &'a u8;
    fn next(&mut self) -> Option<&'a u8> {
        if self.i < self.s.len() {
            let r = &self.s[self.i];
            self.i += 1;
            Some(r)
        } else {
            None
        }
    }
}

fn always(_: &&u8) -> bool {
    true
}

/// parse_number gives the identical Number whether the same digit bytes arrive through
/// slice iterators, chained halves, an always-true filter, skip(0)/take(n), a hand-written
/// iterator, or from a copy of the bytes at a different address.
fn iter_shapes_case(ilen: usize, flen: usize) {
    let int: [u8; 22] = any_digits();
    let frac: [u8; 22] = any_digits();
    let e: i32 = kani::any();
    kani::assume(ilen == 0 || int[0] != b'0');
    let a = parse_number(int[..ilen].iter(), frac[..flen].iter(), e);
    let h = ilen / 2;
    let b = parse_number(int[..h].iter().chain(int[h..ilen].iter()), frac[..flen].iter().filter(always), e);
    assert!(a == b, "C16 chained / filtered iterators give the same Number");
    let c = parse_number(int.iter().take(ilen).skip(0), Plain { s: &frac[..flen], i: 0 }, e);
    assert!(a == c, "C16 take/skip and a hand-written iterator give the same Number");
    // iterators whose size_hint is NOT exact (lower bound 0) on the integer side
    let f = parse_number(int[..ilen].iter().filter(always), frac[..flen].iter(), e);
    assert!(a == f, "C16 a filtering integer iterator gives the same Number (digits are counted, not estimated)");
    let g = parse_number(Plain { s: &int[..ilen], i: 0 }, frac[..flen].iter(), e);
    assert!(a == g, "C16 a hand-written integer iterator gives the same Number");
    let int2 = int;
    let frac2 = frac;
    let d = parse_number(int2[..ilen].iter(), frac2[..flen].iter(), e);
    assert!(a == d, "C16 result independent of the buffer address");
}

#[kani::proof]
#[kani::unwind(24)]
fn c16_iter_shapes_parse_number_small() {
    iter_shapes_case(0, 0);
    iter_shapes_case(1, 0);
    iter_shapes_case(0, 2);
    iter_shapes_case(3, 2);
}

#[kani::proof]
#[kani::unwind(24)]
fn c16_iter_shapes_parse_number_20() {
    iter_shapes_case(18, 3);
}

/// more than 19 integer digits: the remaining integer digits are COUNTED (not estimated from
/// a size hint), whatever the iterator type
#[kani::proof]
#[kani::unwind(24)]
fn c16_iter_shapes_parse_number_21() {
    iter_shapes_case(21, 1);
}
