// Harness module appended to src/slow.rs.
use crate::verif_spec::*;

/// b / bh: for every finite non-negative f64: b = (m, e) of the IEEE decomposition,
/// b+h = (2m+1, e-1).
#[kani::proof]
fn c17_b_bh_f64() {
    let bits: u64 = kani::any();
    kani::assume(bits >> 63 == 0 && (bits >> 52) != 0x7FF);
    let x = f64::from_bits(bits);
    let e_field = bits >> 52;
    let frac = bits & ((1u64 << 52) - 1);
    let (m, e) = if e_field == 0 { (frac, -1074) } else { (frac + (1u64 << 52), e_field as i32 - 1075) };
    let r = b(x);
    assert!(r.mant == m && r.exp == e, "C17 b(x) is the decomposition of x");
    let h = bh(x);
    assert!(h.mant == 2 * m + 1 && h.exp == e - 1, "C17 bh(x) is x plus half an ulp");
    kani::cover!(e_field == 0);
    kani::cover!(bits == 0);
}

#[kani::proof]
fn c17_b_bh_f32() {
    let b32: u32 = kani::any();
    let bits = b32 as u64;
    kani::assume(bits >> 31 == 0 && (bits >> 23) != 0xFF);
    let x = f32::from_bits(b32);
    let e_field = bits >> 23;
    let frac = bits & ((1u64 << 23) - 1);
    let (m, e) = if e_field == 0 { (frac, -149) } else { (frac + (1u64 << 23), e_field as i32 - 150) };
    let r = b(x);
    assert!(r.mant == m && r.exp == e, "C17 b(x) is the decomposition of x");
    let h = bh(x);
    assert!(h.mant == 2 * m + 1 && h.exp == e - 1, "C17 bh(x) is x plus half an ulp");
    kani::cover!(e_field == 0);
}

// ---------------------------------------------------------------- scientific_exponent

const SP10: [u64; 20] = [
    1, 10, 100, 1_000, 10_000, 100_000, 1_000_000, 10_000_000, 100_000_000, 1_000_000_000,
    10_000_000_000, 100_000_000_000, 1_000_000_000_000, 10_000_000_000_000, 100_000_000_000_000,
    1_000_000_000_000_000, 10_000_000_000_000_000, 100_000_000_000_000_000,
    1_000_000_000_000_000_000, 10_000_000_000_000_000_000,
];

/// scientific_exponent(num) == exponent + floor(log10(mantissa)) for EVERY u64 mantissa
/// (0 counts as one digit) and every exponent that cannot overflow (|e| <= 2^31 - 21: the
/// moderate stage only declines for decimal exponents inside its table range).
#[kani::proof]
#[kani::unwind(22)]
fn pslow_scientific_exponent() {
    let num = Number { exponent: kani::any(), mantissa: kani::any(), many_digits: kani::any() };
    kani::assume(num.exponent >= i32::MIN + 21 && num.exponent <= i32::MAX - 21);
    let r = scientific_exponent(&num);
    // number of decimal digits minus one, from literal thresholds
    let mut d: i32 = 0;
    let mut k = 1;
    while k < 20 {
        if num.mantissa >= SP10[k] {
            d = k as i32;
        }
        k += 1;
    }
    assert!(r == num.exponent + d, "P-SLOW scientific_exponent = exponent + floor(log10 mantissa)");
    kani::cover!(d == 19);
    kani::cover!(num.mantissa == 0);
}

// ---------------------------------------------------------------- slow(): glue

static mut S_BIG_DIGITS: usize = 0;
static mut S_MAXD: usize = 0;
static mut S_POS: Option<i32> = None;
static mut S_NEG: Option<(u64, i32, i32)> = None;
static mut S_RET: ExtendedFloat = ExtendedFloat { mant: 0, exp: 0 };

fn ghost_parse_mantissa<'a, Iter1, Iter2>(_integer: Iter1, _fraction: Iter2, max_digits: usize) -> (Bigint, usize)
where
    Iter1: Iterator<Item = &'a u8> + Clone,
    Iter2: Iterator<Item = &'a u8> + Clone,
{
    unsafe {
        S_MAXD = max_digits;
        (Bigint::new(), S_BIG_DIGITS)
    }
}
fn ghost_positive<F: Float>(_bigmant: Bigint, exponent: i32) -> ExtendedFloat {
    unsafe {
        S_POS = Some(exponent);
        S_RET
    }
}
fn ghost_negative<F: Float>(_bigmant: Bigint, fp: ExtendedFloat, exponent: i32) -> ExtendedFloat {
    unsafe {
        S_NEG = Some((fp.mant, fp.exp, exponent));
        S_RET
    }
}

macro_rules! slow_glue {
    ($name:ident, $t:ty, $maxd:expr) => {
        /// slow::<F>: keeps MAX_DIGITS (769 / 114) digits; the power of ten applied to the digit
        /// integer is  scientific_exponent + 1 - digits kept;  non-negative -> positive_digit_comp,
        /// negative -> negative_digit_comp with the estimate passed on unchanged; result returned as is.
        #[kani::proof]
        #[kani::unwind(8)]
        #[kani::stub(parse_mantissa, ghost_parse_mantissa)]
        #[kani::stub(positive_digit_comp, ghost_positive)]
        #[kani::stub(negative_digit_comp, ghost_negative)]
        fn $name() {
            let num = Number { exponent: kani::any(), mantissa: kani::any(), many_digits: kani::any() };
            kani::assume(num.exponent >= -5000 && num.exponent <= 5000);
            let fp = ExtendedFloat { mant: kani::any(), exp: kani::any() };
            kani::assume(fp.mant >> 63 == 1);
            let digits: usize = kani::any();
            kani::assume(digits >= 1 && digits <= 2000);
            let ret = ExtendedFloat { mant: kani::any(), exp: kani::any() };
            unsafe {
                S_BIG_DIGITS = digits;
                S_RET = ret;
            }
            let empty: [u8; 0] = [];
            let r = slow::<$t, _, _>(num, fp, empty.iter(), empty.iter());
            let sci = scientific_exponent(&num);
            let ex = sci + 1 - digits as i32;
            unsafe {
                assert!(S_MAXD >= $maxd, "P-SLOW keeps at least 769 (f64) / 114 (f32) digits: one more than the longest exact halfway expansion");
                if ex >= 0 {
                    assert!(S_POS == Some(ex) && S_NEG.is_none(), "P-SLOW non-negative scale -> positive_digit_comp(digits, sci+1-count)");
                } else {
                    assert!(S_NEG == Some((fp.mant, fp.exp, ex)) && S_POS.is_none(), "P-SLOW negative scale -> negative_digit_comp(digits, estimate, sci+1-count)");
                }
            }
            assert!(r == ret, "P-SLOW result of the comparison returned unchanged");
            kani::cover!(ex >= 0);
            kani::cover!(ex < 0);
        }
    };
}
slow_glue!(pslow_slow_glue_f64, f64, 769);
slow_glue!(pslow_slow_glue_f32, f32, 114);

// ---------------------------------------------------------------- positive_digit_comp

static mut P_POW: Option<(u32, u32)> = None;
fn ghost_bigint_pow(_this: &mut Bigint, base: u32, exp: u32) -> Option<()> {
    unsafe {
        assert!(P_POW.is_none(), "exactly one scaling");
        P_POW = Some((base, exp));
    }
    Some(())
}

fn big_from(a: &[u64]) -> Bigint {
    Bigint { data: crate::bigint::VecType::try_from(a).unwrap() }
}

macro_rules! positive_comp {
    ($name:ident, $t:ty, $fmt:expr, $len:expr, $tie:expr) => {
        /// positive_digit_comp::<F>(digits, e) with Bigint::pow replaced by a ghost recorder
        /// (its contract: the value becomes digits * 10^e; here the symbolic vector stands for
        /// that product): scales by 10^e exactly once, and the packed result is the
        /// round-to-nearest-even of the big integer's VALUE: top 64 bits from hi64, binary
        /// exponent from bit_length, every lower bit feeding the sticky flag.
        #[kani::proof]
        #[kani::unwind(66)]
        #[kani::stub(Bigint::pow, ghost_bigint_pow)]
        fn $name() {
            let a: [u64; 4] = kani::any();
            kani::assume(a[$len - 1] != 0);
            let x = big_from(&a[..$len]);
            let v = ref_from_slice(&a[..$len]);
            let e: i32 = kani::any();
            kani::assume(e >= 0);
            let fp = positive_digit_comp::<$t>(x, e);
            unsafe {
                assert!(P_POW == Some((10, e as u32)), "P-SLOW positive_digit_comp scales by 10^exponent");
            }
            let bits = fp.mant | ((fp.exp as u64) << $fmt.ms);
            assert!(fp.exp >= 0 && fp.exp as u64 <= $fmt.inf_e && fp.mant <= 1u64 << $fmt.ms);
            let (top, sticky) = ref_hi64(&v);
            let bl = ref_bit_length(&v) as i32;
            assert!(spec_is_rne_value($fmt, top, bl - 64, sticky, bits), "P-SLOW positive_digit_comp == RNE of the exact integer value");
            kani::cover!(!$tie || (sticky && !spec_is_rne_value($fmt, top, bl - 64, false, bits)), "sticky bits break a tie upward");
        }
    };
}
positive_comp!(pslow_positive_comp_f64_1, f64, F64, 1, false);
positive_comp!(pslow_positive_comp_f64_2, f64, F64, 2, true);
positive_comp!(pslow_positive_comp_f64_3, f64, F64, 3, true);
positive_comp!(pslow_positive_comp_f32_1, f32, F32, 1, false);
positive_comp!(pslow_positive_comp_f32_2, f32, F32, 2, true);
positive_comp!(pslow_positive_comp_f32_3, f32, F32, 3, false);

// ---------------------------------------------------------------- parse_mantissa
//
// The big integer's vector operations mul_small / add_small are replaced by ghost recorders
// that keep the VALUE of the big integer in a u128 (their own contracts: value' = value * y,
// value' = value + y, obligations c12_small_mul / c12_small_add_from).  What is verified here
// is everything parse_mantissa itself does: chunking into 19-digit words, the cut at
// max_digits, skipping of leading fraction zeros, the single sticky digit, the count.

static mut PM_VAL: u128 = 0;
static mut PM_OVF: bool = false;

fn ghost_mul_small(_v: &mut crate::bigint::VecType, y: Limb) -> Option<()> {
    unsafe {
        match PM_VAL.checked_mul(y as u128) {
            Some(x) => PM_VAL = x,
            None => PM_OVF = true,
        }
    }
    Some(())
}
fn ghost_add_small(_v: &mut crate::bigint::VecType, y: Limb) -> Option<()> {
    unsafe {
        match PM_VAL.checked_add(y as u128) {
            Some(x) => PM_VAL = x,
            None => PM_OVF = true,
        }
    }
    Some(())
}

fn digits24() -> [u8; 40] {
    let a: [u8; 40] = kani::any();
    let mut i = 0;
    while i < 40 {
        kani::assume(a[i] >= b'0' && a[i] <= b'9');
        i += 1;
    }
    a
}

/// value of the decimal digit string D[from..to] (to - from <= 19), D = int ++ frac
fn dec_value(int: &[u8], frac: &[u8], from: usize, to: usize) -> u64 {
    let mut v: u64 = 0;
    let mut i = from;
    while i < to {
        let d = if i < int.len() { int[i] } else { frac[i - int.len()] };
        v = v * 10 + (d - b'0') as u64;
        i += 1;
    }
    v
}

/// parse_mantissa(int, frac, max_digits) for the given digit-count shape (digit values
/// symbolic; `z` = number of leading fraction zeros when there is no integer part):
/// the big integer is the first min(significant, max_digits) significant digits, followed by
/// ONE extra digit '1' exactly when some later digit (integer or fraction) is non-zero;
/// the returned count is the number of digits in that integer.
fn parse_mantissa_case(ilen: usize, flen: usize, z: usize, max_digits: usize) {
    let int = digits24();
    let mut frac = digits24();
    kani::assume(ilen == 0 || int[0] != b'0');
    // leading fraction zeros are CONCRETE bytes and the first significant fraction digit of a
    // number without integer part is the concrete digit '7': symbolic execution then follows
    // one control path through the zero-skipping loop (all other digits stay symbolic)
    // `z` concrete leading zeros of the fraction followed by the concrete digit '7' (for ilen > 0 these
    // zeros are ordinary significant digits; z == 99 means: leave the fraction fully symbolic)
    let mut k = 0;
    while k < 40 {
        if (ilen == 0 || z != 99) && z != 99 && k < z && k < flen {
            frac[k] = b'0';
        }
        k += 1;
    }
    if z != 99 && z < flen && (ilen == 0 || z > 0) {
        frac[z] = b'7';
    }
    unsafe {
        PM_VAL = 0;
        PM_OVF = false;
    }
    let (_big, count) = parse_mantissa(int[..ilen].iter(), frac[..flen].iter(), max_digits);
    // specification (positional notation, split after 19 digits when longer)
    let total = ilen + flen;
    let s = if ilen == 0 { if z < flen { z } else { flen } } else { 0 };
    let sig = total - s;
    let kept = if sig < max_digits { sig } else { max_digits };
    let v: u128 = if kept <= 19 {
        dec_value(&int[..ilen], &frac[..flen], s, s + kept) as u128
    } else {
        let hi = dec_value(&int[..ilen], &frac[..flen], s, s + 19) as u128;
        let lo = dec_value(&int[..ilen], &frac[..flen], s + 19, s + kept) as u128;
        hi * (SP10[kept - 19] as u128) + lo
    };
    let mut nonzero_tail = false;
    let mut i = s + kept;
    while i < total {
        let d = if i < ilen { int[i] } else { frac[i - ilen] };
        if d != b'0' {
            nonzero_tail = true;
        }
        i += 1;
    }
    let (ev, ec) = if nonzero_tail { (v * 10 + 1, kept + 1) } else { (v, kept) };
    assert!(count == ec, "P-SLOW parse_mantissa digit count = digits kept (+1 sticky digit)");
    unsafe {
        assert!(!PM_OVF);
        assert!(PM_VAL == ev, "P-SLOW parse_mantissa value = kept digits, then one sticky '1' iff a later digit is non-zero");
    }
    kani::cover!(nonzero_tail || sig <= max_digits);
}

macro_rules! pmant {
    ($name:ident, $i:expr, $f:expr, $z:expr, $m:expr) => {
        #[kani::proof]
        #[kani::unwind(42)]
        #[cfg_attr(not(feature = "alloc"), kani::stub(crate::stackvec::StackVec::mul_small, ghost_mul_small))]
        #[cfg_attr(not(feature = "alloc"), kani::stub(crate::stackvec::StackVec::add_small, ghost_add_small))]
        #[cfg_attr(feature = "alloc", kani::stub(crate::heapvec::HeapVec::mul_small, ghost_mul_small))]
        #[cfg_attr(feature = "alloc", kani::stub(crate::heapvec::HeapVec::add_small, ghost_add_small))]
        fn $name() {
            parse_mantissa_case($i, $f, $z, $m);
        }
    };
}
// two full 19-digit chunks (the second chunk boundary), value still below 2^128
pmant!(pslow_pmant_i38_f0_all, 38, 0, 0, 769);
pmant!(pslow_pmant_i20_f18_all, 20, 18, 0, 769);
pmant!(pslow_pmant_i3_f0_all, 3, 0, 0, 769);
pmant!(pslow_pmant_i0_f5_z2_all, 0, 5, 2, 769);
pmant!(pslow_pmant_i0_f3_z3_all, 0, 3, 3, 114);
pmant!(pslow_pmant_i2_f3_all, 2, 3, 0, 114);
pmant!(pslow_pmant_i20_f0_all, 20, 0, 0, 769);
pmant!(pslow_pmant_i19_f2_all, 19, 2, 0, 769);
// a 19-digit integer part (exactly one full chunk) followed by a fraction that starts with a concrete zero
pmant!(pslow_pmant_i19_f3_lead0, 19, 3, 1, 769);
pmant!(pslow_pmant_i5_f5_m3, 5, 5, 0, 3);
pmant!(pslow_pmant_i2_f5_m4, 2, 5, 0, 4);
pmant!(pslow_pmant_i2_f5_m7, 2, 5, 0, 7);
pmant!(pslow_pmant_i0_f8_z2_m4, 0, 8, 2, 4);
pmant!(pslow_pmant_i21_f0_m20, 21, 0, 0, 20);
pmant!(pslow_pmant_i19_f3_m19, 19, 3, 0, 19);
pmant!(pslow_pmant_i10_f12_m21, 10, 12, 0, 21);
pmant!(pslow_pmant_i0_f23_z1_m21, 0, 23, 1, 21);

// ---------------------------------------------------------------- negative_digit_comp
//
// Bigint::pow is replaced by an exact model on single-limb values (its contract: the value
// is multiplied by base^exp; obligations c12_pow_factors, c12_small_mul, c12_shl*).  The
// domain is restricted so that every scaled value stays below 2^64 (BOUNDED stand-in): what
// is verified is negative_digit_comp's own logic - truncation of the estimate to b, b+h,
// which side is scaled by which power of 2 and 5, direction of the comparison, ties to even.

fn model_bigint_pow(this: &mut Bigint, base: u32, exp: u32) -> Option<()> {
    let v: u64 = if this.data.len() == 0 {
        0
    } else {
        assert!(this.data.len() == 1, "model covers single-limb values");
        this.data[0]
    };
    kani::assume(exp <= 62);
    let nv: u128 = if base == 2 {
        // multiplication by 2^exp as a shift (keeps the model free of symbolic multipliers)
        (v as u128) << exp
    } else {
        let mut f: u128 = 1;
        let mut i = 0;
        while i < 27 {
            if i < exp {
                f *= base as u128;
            }
            i += 1;
        }
        kani::assume(exp <= 27);
        v as u128 * f
    };
    kani::assume(nv < 1u128 << 64);
    *this = Bigint::from_u64(nv as u64);
    Some(())
}

macro_rules! negative_comp {
    ($name:ident, $t:ty, $fmt:expr, $k:expr, $dbits:expr, $elo:expr, $ehi:expr, $tie:expr) => {
        /// negative_digit_comp::<F>(D, fp, -k): for every single-limb digit integer D < 2^24,
        /// every normalised estimate fp in the range where all scaled values fit one limb:
        /// with b = the estimate truncated to a float and h = half its ulp, the result is
        /// b if D*10^-k < b+h, the float above b if D*10^-k > b+h, and the even one on a tie.
        #[kani::proof]
        #[kani::unwind(66)]
        #[kani::stub(Bigint::pow, model_bigint_pow)]
        fn $name() {
            let d: u64 = kani::any();
            kani::assume(d != 0 && d < (1u64 << $dbits));
            let fp = ExtendedFloat { mant: kani::any(), exp: kani::any() };
            kani::assume(fp.mant >> 63 == 1);
            // estimate's value is about D*10^-k < 2^24: biased exponent range of a normal result
            // biased exponent range of the estimate: e_b = fp.exp + (63 - ms) - bias in [$elo, $ehi]
            kani::assume(fp.exp as i64 + (63 - $fmt.ms as i64) - $fmt.bias as i64 >= $elo && fp.exp as i64 + (63 - $fmt.ms as i64) - ($fmt.bias as i64) <= $ehi);
            let big = Bigint::from_u64(d);
            let r = negative_digit_comp::<$t>(big, fp, -$k);
            let rbits = r.mant | ((r.exp as u64) << $fmt.ms);
            // b = truncation of the estimate (specification: spec_is_rtz), as fields
            let shift = 63 - $fmt.ms;
            let m_b: u64 = fp.mant >> shift; // 2^ms <= m_b < 2^(ms+1): normal in this range
            let e_field = (fp.exp + shift as i32) as u64;
            let b_bits = (e_field << $fmt.ms) | (m_b & ((1u64 << $fmt.ms) - 1));
            assert!(spec_is_rtz($fmt, fp.mant, fp.exp, b_bits));
            // b + h = (2 m_b + 1) * 2^(e_b - 1), e_b = e_field - bias ; compare with D / 10^k:
            //   D * 2^(1 - e_b)  ?  (2 m_b + 1) * 10^k          (1 - e_b > 0 in this range)
            let e_b: i32 = e_field as i32 - $fmt.bias;
            let sh = (1 - e_b) as u32;
            assert!(e_b <= 0 && sh <= 100);
            let lhs: u128 = (d as u128) << sh;
            let mut p10: u128 = 1;
            let mut i = 0;
            while i < $k {
                p10 *= 10;
                i += 1;
            }
            let rhs: u128 = (2 * m_b as u128 + 1) * p10;
            let expect = if lhs < rhs {
                b_bits
            } else if lhs > rhs {
                b_bits + 1
            } else if m_b & 1 == 1 {
                b_bits + 1
            } else {
                b_bits
            };
            assert!(rbits == expect, "P-SLOW negative_digit_comp rounds by the exact comparison with b+h, ties to even");
            kani::cover!(!$tie || lhs == rhs, "exact tie");
            kani::cover!(lhs > rhs);
            kani::cover!(lhs < rhs);
        }
    };
}
// small digit integers over many binades (no tie possible: a tie needs ms+2 significant bits)
negative_comp!(pslow_negative_comp_f64_k1, f64, F64, 1, 24, -90, -30, false);
negative_comp!(pslow_negative_comp_f32_k1, f32, F32, 1, 24, -60, -1, false);
// wide digit integers just below 2^64 where exact ties exist
negative_comp!(pslow_negative_comp_f64_k1_tie, f64, F64, 1, 63, -3, 0, true);
negative_comp!(pslow_negative_comp_f64_k3_tie, f64, F64, 3, 63, -3, 0, true);
negative_comp!(pslow_negative_comp_f32_k2_tie, f32, F32, 2, 40, -6, 0, true);
negative_comp!(pslow_negative_comp_f32_k1_tie, f32, F32, 1, 30, -3, 0, true);

// ---------------------------------------------------------------- negative_digit_comp: scaling plan (all inputs)
//
// Bigint::pow as a pure recorder (the big integers are left unscaled).  Contract of
// negative_digit_comp itself, for ALL estimates and ALL negative scales:
//   b   = the estimate truncated to a float (C18),  b+h = (2 m_b + 1) * 2^(e_b - 1);
//   the digits D * 10^real_exp are compared with b+h on a common scale:
//   (2 m_b + 1) is multiplied by 5^(-real_exp); with binary_exp = (e_b - 1) - real_exp,
//   (2 m_b + 1) is multiplied by 2^binary_exp if it is positive, otherwise D by 2^(-binary_exp);
//   the result is b, or the float above b, according to the comparison (Equal -> even).
static mut NP_N: usize = 0;
static mut NP_REC: [(u64, u32, u32); 3] = [(0, 0, 0); 3];
fn rec_bigint_pow(this: &mut Bigint, base: u32, exp: u32) -> Option<()> {
    unsafe {
        assert!(NP_N < 3, "at most three scalings");
        let id = if this.data.len() == 0 { 0 } else { this.data[0] };
        NP_REC[NP_N] = (id, base, exp);
        NP_N += 1;
    }
    Some(())
}

macro_rules! negative_plan {
    ($name:ident, $t:ty, $fmt:expr) => {
        #[kani::proof]
        #[kani::unwind(8)]
        #[kani::stub(Bigint::pow, rec_bigint_pow)]
        fn $name() {
            let d: u64 = kani::any();
            kani::assume(d != 0);
            let fp = ExtendedFloat { mant: kani::any(), exp: kani::any() };
            kani::assume(fp.mant >> 63 == 1);
            kani::assume(fp.exp >= -63 && (fp.exp as i64) < $fmt.inf_e as i64 - (63 - $fmt.ms as i64));
            let real_exp: i32 = kani::any();
            kani::assume(real_exp < 0 && real_exp >= -4000);
            // b by the (proved) truncating round; its IEEE fields by literals
            let mut bf = fp;
            round::<$t, _>(&mut bf, round_down);
            let b_bits = bf.mant | ((bf.exp as u64) << $fmt.ms);
            assert!(spec_is_rtz($fmt, fp.mant, fp.exp, b_bits));
            let e_field = b_bits >> $fmt.ms;
            let frac = b_bits & ((1u64 << $fmt.ms) - 1);
            let (m_b, e_b): (u64, i32) = if e_field == 0 { (frac, 1 - $fmt.bias) } else { (frac + (1u64 << $fmt.ms), e_field as i32 - $fmt.bias) };
            let theor = 2 * m_b + 1;
            kani::assume(d != theor); // the recorder tells the two integers apart by their value
            let r = negative_digit_comp::<$t>(Bigint::from_u64(d), fp, real_exp);
            let binary_exp = (e_b - 1) - real_exp;
            let half = (-real_exp) as u32;
            unsafe {
                let mut k = 0;
                assert!(NP_N >= 1 && NP_REC[0] == (theor, 5, half), "P-SLOW b+h is scaled by 5^(-real_exp)");
                k += 1;
                if binary_exp > 0 {
                    assert!(NP_N == k + 1 && NP_REC[k] == (theor, 2, binary_exp as u32), "P-SLOW positive binary exponent: b+h scaled by 2^binary_exp");
                } else if binary_exp < 0 {
                    assert!(NP_N == k + 1 && NP_REC[k] == (d, 2, (-binary_exp) as u32), "P-SLOW negative binary exponent: the digits scaled by 2^(-binary_exp)");
                } else {
                    // equal scales: nothing more, or a (harmless) multiplication by 2^0
                    assert!(NP_N == k || (NP_N == k + 1 && NP_REC[k].1 == 2 && NP_REC[k].2 == 0), "P-SLOW equal scales: no power of two applied");
                }
            }
            // the recorder left both integers unscaled: the comparison seen by the code is d ? theor
            let rbits = r.mant | ((r.exp as u64) << $fmt.ms);
            let expect = if d > theor {
                b_bits + 1
            } else if d < theor {
                b_bits
            } else {
                0 // excluded above
            };
            assert!(rbits == expect, "P-SLOW rounds up exactly when the digits exceed b+h");
            kani::cover!(binary_exp > 0 && d > theor);
            kani::cover!(binary_exp < 0 && d < theor);
            kani::cover!(e_field == 0, "subnormal b");
        }
    };
}
negative_plan!(pslow_negative_plan_f64, f64, F64);
negative_plan!(pslow_negative_plan_f32, f32, F32);
