// Harness module appended to src/slow.rs.
use crate::verif_spec::*;

/// b / bh: for every finite non-negative f64: b = (m, e) of the IEEE decomposition,
/// b+h = (2m+1, e-1).
#[kani::proof]
fn c17_b_bh_f64() {
    let bits: u64 = kani::any();
    kani::assume(bits >> 63 == 0 && (bits >> 52) != 0x7FF);
    let x = f64::from_bits(bits);
    let e_field = bits >> 52;
    let frac = bits & ((1u64 << 52) - 1);
    let (m, e) = if e_field == 0 { (frac, -1074) } else { (frac + (1u64 << 52), e_field as i32 - 1075) };
    let r = b(x);
    assert!(r.mant == m && r.exp == e, "C17 b(x) is the decomposition of x");
    let h = bh(x);
    assert!(h.mant == 2 * m + 1 && h.exp == e - 1, "C17 bh(x) is x plus half an ulp");
    kani::cover!(e_field == 0);
    kani::cover!(bits == 0);
}

#[kani::proof]
fn c17_b_bh_f32() {
    let b32: u32 = kani::any();
    let bits = b32 as u64;
    kani::assume(bits >> 31 == 0 && (bits >> 23) != 0xFF);
    let x = f32::from_bits(b32);
    let e_field = bits >> 23;
    let frac = bits & ((1u64 << 23) - 1);
    let (m, e) = if e_field == 0 { (frac, -149) } else { (frac + (1u64 << 23), e_field as i32 - 150) };
    let r = b(x);
    assert!(r.mant == m && r.exp == e, "C17 b(x) is the decomposition of x");
    let h = bh(x);
    assert!(h.mant == 2 * m + 1 && h.exp == e - 1, "C17 bh(x) is x plus half an ulp");
    kani::cover!(e_field == 0);
}
