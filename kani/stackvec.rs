// Harness module appended to src/stackvec.rs (configurations without `alloc`).
// Contracts for every safe operation of StackVec (C13, C08, C12): representation invariant
//   wf(v)  :=  v.length <= 62  and  data[..length] initialised
// abstract view  view(v) := data[..length]  as a sequence.  Each harness: for EVERY wf
// pre-state (symbolic length, symbolic limbs) and every argument: post-state wf,
// view(post) == reference operation on view(pre) for the WHOLE view (frame included),
// failing try_* return None with the view unchanged.  By induction over operations every
// finite history agrees with the reference sequence.
const CAP: usize = 62;

/// An arbitrary well-formed vector: symbolic length 0..=62, symbolic limbs.
/// (All 62 slots are written; slots >= length are dead to the abstraction.  The separate
///  `c13_uninit_*` harnesses keep those slots genuinely uninitialised.)
fn any_wf() -> (StackVec, [bigint::Limb; CAP], usize) {
    let arr: [bigint::Limb; CAP] = kani::any();
    let len: usize = kani::any();
    kani::assume(len <= CAP);
    // loop-free: reinterpret the symbolic array as the (initialised) backing store
    let data: [mem::MaybeUninit<bigint::Limb>; CAP] = unsafe { mem::transmute(arr) };
    let v = StackVec { data, length: len as u16 };
    (v, arr, len)
}

fn slot(v: &StackVec, i: usize) -> bigint::Limb {
    unsafe { v.data[i].assume_init() }
}

/// forall i < n: v[i] == arr[i]   -- quantifier expressed with one symbolic index
fn same_prefix(v: &StackVec, arr: &[bigint::Limb; CAP], n: usize) -> bool {
    let i: usize = kani::any();
    !(i < n && i < CAP) || slot(v, i) == arr[i]
}

#[kani::proof]
fn c13_new_len_capacity() {
    let v = StackVec::new();
    assert!(v.len() == 0 && v.is_empty() && v.capacity() == CAP, "C13 new() is the empty sequence, capacity 62");
    assert!(bigint::BIGINT_LIMBS == 62 && bigint::LIMB_BITS == 64);
    let (w, _arr, len) = any_wf();
    assert!(w.len() == len && w.is_empty() == (len == 0) && w.capacity() == CAP, "C13 len/is_empty/capacity");
    let s: &[bigint::Limb] = &w;
    assert!(s.len() == len, "C13 deref exposes exactly data[..len]");
}

#[kani::proof]
fn c13_deref_view() {
    let (mut w, arr, len) = any_wf();
    {
        let s: &[bigint::Limb] = &w;
        assert!(s.len() == len);
        let i: usize = kani::any();
        assert!(!(i < len) || s[i] == arr[i], "C13 deref view equals the stored prefix");
    }
    {
        let s: &mut [bigint::Limb] = &mut w;
        assert!(s.len() == len);
        let i: usize = kani::any();
        if i < len {
            assert!(s[i] == arr[i], "C13 deref_mut view equals the stored prefix");
            let x: bigint::Limb = kani::any();
            s[i] = x;
            let j: usize = kani::any();
            assert!(!(j < len) || slot(&w, j) == if j == i { x } else { arr[j] }, "C13 write through deref_mut changes exactly one element");
        }
        assert!(w.len() == len);
    }
}

#[kani::proof]
fn c13_try_push() {
    let (mut v, arr, len) = any_wf();
    let x: bigint::Limb = kani::any();
    let r = v.try_push(x);
    if len < CAP {
        assert!(r == Some(()) && v.len() == len + 1, "C13 push within capacity succeeds");
        assert!(slot(&v, len) == x, "C13 pushed value is last");
        assert!(same_prefix(&v, &arr, len), "C13 push leaves earlier elements unchanged");
    } else {
        assert!(r.is_none() && v.len() == CAP, "C13 push at capacity fails");
        assert!(same_prefix(&v, &arr, CAP), "C13 failed push leaves contents unchanged");
    }
    kani::cover!(len == CAP);
    kani::cover!(len == 0);
}

#[kani::proof]
fn c13_pop() {
    let (mut v, arr, len) = any_wf();
    let r = v.pop();
    if len == 0 {
        assert!(r.is_none() && v.len() == 0, "C13 pop on empty");
    } else {
        assert!(r == Some(arr[len - 1]) && v.len() == len - 1, "C13 pop returns the last element");
        assert!(same_prefix(&v, &arr, len - 1), "C13 pop leaves the rest unchanged");
    }
    kani::cover!(len == CAP);
}

/// try_extend with a slice of length N (each N in 0..=4, symbolic contents) at EVERY
/// pre-length (so the capacity edge is covered: lengths 58..=62 refuse when the sum exceeds 62).
fn extend_case(n: usize) {
    let (mut v, arr, len) = any_wf();
    let src: [bigint::Limb; 4] = kani::any();
    let r = v.try_extend(&src[..n]);
    if len + n <= CAP {
        assert!(r == Some(()) && v.len() == len + n, "C13 extend within capacity succeeds");
        let j: usize = kani::any();
        assert!(!(j < n) || slot(&v, len + j) == src[j], "C13 extend appends the slice in order");
        assert!(same_prefix(&v, &arr, len), "C13 extend leaves earlier elements unchanged");
    } else {
        assert!(r.is_none() && v.len() == len, "C13 extend beyond capacity fails");
        assert!(same_prefix(&v, &arr, len), "C13 failed extend leaves contents unchanged");
    }
    kani::cover!(len + n > CAP || n == 0);
    kani::cover!(len + n == CAP);
}

#[kani::proof]
fn c13_try_extend_small() {
    extend_case(0);
    extend_case(1);
    extend_case(2);
    extend_case(3);
    extend_case(4);
}

/// try_from(slice) for slices of length 0..=4: the copy of the slice.
fn from_case(n: usize) {
    let src: [bigint::Limb; 4] = kani::any();
    let v = StackVec::try_from(&src[..n]).unwrap();
    assert!(v.len() == n);
    let j: usize = kani::any();
    assert!(!(j < n) || slot(&v, j) == src[j], "C13 try_from copies the slice");
}

#[kani::proof]
fn c13_try_from_small() {
    from_case(0);
    from_case(1);
    from_case(2);
    from_case(3);
    from_case(4);
}

/// try_resize to ANY requested length at every pre-length, growth limited to 4 new elements
/// per call in this harness (larger growth: c13_try_resize_band_*).
#[kani::proof]
#[kani::unwind(6)]
fn c13_try_resize_small() {
    let (mut v, arr, len) = any_wf();
    let new_len: usize = kani::any();
    let fill: bigint::Limb = kani::any();
    kani::assume(new_len <= len + 4 || new_len > CAP);
    let r = v.try_resize(new_len, fill);
    if new_len > CAP {
        assert!(r.is_none() && v.len() == len, "C13 resize beyond capacity fails");
        assert!(same_prefix(&v, &arr, len), "C13 failed resize leaves contents unchanged");
    } else {
        assert!(r == Some(()) && v.len() == new_len, "C13 resize sets the length");
        let keep = if new_len < len { new_len } else { len };
        assert!(same_prefix(&v, &arr, keep), "C13 resize keeps the common prefix");
        let j: usize = kani::any();
        assert!(!(j >= len && j < new_len) || slot(&v, j) == fill, "C13 resize fills new elements with the value");
    }
    kani::cover!(new_len > CAP);
    kani::cover!(new_len == CAP && len == CAP - 4);
    kani::cover!(new_len < len);
}

/// try_resize between CONCRETE lengths (symbolic contents and fill value): robust against
/// implementations whose cost for the verifier depends on a symbolic element count.
fn resize_concrete_case(len: usize, new_len: usize) {
    let a: [bigint::Limb; 4] = kani::any();
    let mut v = if len <= 4 { StackVec::try_from(&a[..len]).unwrap() } else {
        let mut t = StackVec::new();
        t.try_resize(len, a[0]).unwrap();
        t
    };
    let fill: bigint::Limb = kani::any();
    let r = v.try_resize(new_len, fill);
    assert!(r == Some(()) && v.len() == new_len, "C13 resize sets the length");
    let j: usize = kani::any();
    if j < new_len {
        let expect = if j < len { if len <= 4 { a[j] } else { a[0] } } else { fill };
        assert!(slot(&v, j) == expect, "C13 resize keeps the prefix and fills new elements with the value");
    }
}

#[kani::proof]
#[kani::unwind(64)]
fn c13_try_resize_concrete() {
    resize_concrete_case(0, 3);
    resize_concrete_case(2, 4);
    resize_concrete_case(4, 1);
    resize_concrete_case(60, 62);
}

/// normalize: strips exactly the trailing zero limbs, keeps everything else
/// (at every length; at most 4 trailing zero limbs in this harness).
#[kani::proof]
#[kani::unwind(6)]
fn c13_normalize() {
    let (mut v, arr, len) = any_wf();
    kani::assume(len < 5 || arr[len - 5] != 0 || arr[len - 4] != 0 || arr[len - 3] != 0 || arr[len - 2] != 0 || arr[len - 1] != 0);
    let was_norm = v.is_normalized();
    assert!(was_norm == (len == 0 || arr[len - 1] != 0), "C13 is_normalized <=> empty or last limb non-zero");
    v.normalize();
    let n = v.len();
    assert!(n <= len, "C13 normalize only shrinks");
    assert!(n == 0 || arr[n - 1] != 0, "C13 normalized result has a non-zero top limb");
    let j: usize = kani::any();
    assert!(!(j >= n && j < len) || arr[j] == 0, "C13 normalize removes only zero limbs");
    assert!(same_prefix(&v, &arr, n), "C13 normalize keeps the remaining limbs");
    assert!(v.is_normalized());
    kani::cover!(n == 0 && len == 4);
    kani::cover!(len == CAP && n == CAP - 4);
    kani::cover!(n == len && len > 0);
}

/// from_u64
#[kani::proof]
fn c13_from_u64() {
    let x: u64 = kani::any();
    let v = StackVec::from_u64(x);
    if x == 0 {
        assert!(v.len() == 0, "C13 from_u64(0) is the empty (normalised) vector");
    } else {
        assert!(v.len() == 1 && slot(&v, 0) == x, "C13 from_u64(x) is the single limb x");
    }
}

/// eq / cmp on vectors of length <= 3 (every length pair, symbolic contents): eq is sequence
/// equality; cmp is the documented length-first, then most-significant-limb-first rule, which
/// for NORMALISED vectors is the numeric order of the little-endian integers.
fn eq_cmp_case(n: usize, m: usize) {
    let a: [bigint::Limb; 3] = kani::any();
    let b: [bigint::Limb; 3] = kani::any();
    let x = StackVec::try_from(&a[..n]).unwrap();
    let y = StackVec::try_from(&b[..m]).unwrap();
    let seq_eq = n == m && (n < 1 || a[0] == b[0]) && (n < 2 || a[1] == b[1]) && (n < 3 || a[2] == b[2]);
    assert!((x == y) == seq_eq, "C13 eq is sequence equality");
    let ord = x.cmp(&y);
    assert!(x.partial_cmp(&y) == Some(ord), "C13 partial_cmp agrees with cmp");
    assert!((ord == cmp::Ordering::Equal) == seq_eq, "C13 cmp Equal iff equal sequences");
    // numeric comparison for normalised operands (values < 2^192: compare as (hi, mid, lo))
    let xn = n == 0 || a[n - 1] != 0;
    let yn = m == 0 || b[m - 1] != 0;
    if xn && yn {
        let xa = [if n > 0 { a[0] } else { 0 }, if n > 1 { a[1] } else { 0 }, if n > 2 { a[2] } else { 0 }];
        let ya = [if m > 0 { b[0] } else { 0 }, if m > 1 { b[1] } else { 0 }, if m > 2 { b[2] } else { 0 }];
        let num = if xa[2] != ya[2] {
            xa[2].cmp(&ya[2])
        } else if xa[1] != ya[1] {
            xa[1].cmp(&ya[1])
        } else {
            xa[0].cmp(&ya[0])
        };
        assert!(ord == num, "C13 cmp of normalised vectors is numeric comparison");
    }
}

#[kani::proof]
#[kani::unwind(34)]
fn c13_eq_cmp_short() {
    let mut n = 0;
    while n <= 3 {
        let mut m = 0;
        while m <= 3 {
            eq_cmp_case(n, m);
            m += 1;
        }
        n += 1;
    }
}

/// cmp at full capacity: two wf vectors of equal symbolic length up to 62 that differ in
/// exactly the limb `d` and agree above it compare as those limbs do (most significant
/// difference decides), different lengths compare by length.
#[kani::proof]
#[kani::unwind(10)]
fn c13_cmp_bounded8() {
    let (x, a, n) = any_wf();
    let (y, b, m) = any_wf();
    kani::assume(n <= 8 && m <= 8);
    let ord = bigint::compare(&x, &y);
    if n != m {
        assert!(ord == n.cmp(&m), "C13 cmp: different lengths compare by length");
    } else if n == 0 {
        assert!(ord == cmp::Ordering::Equal);
    } else {
        let d: usize = kani::any();
        kani::assume(d < n);
        // d is the most significant differing limb
        kani::assume(a[d] != b[d]);
        let mut k = 0;
        while k < 8 {
            if k > d && k < n {
                kani::assume(a[k] == b[k]);
            }
            k += 1;
        }
        assert!(ord == a[d].cmp(&b[d]), "C13 cmp: most significant differing limb decides");
    }
    kani::cover!(n == m && n == 8);
}
