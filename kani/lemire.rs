// Harness module appended to src/lemire.rs (default / alloc configurations).
// Contracts for: compute_float, compute_error, compute_error_scaled, lemire, power,
// full_multiplication, compute_product_approx      (C11, C01, C02, C07, C04)
use crate::verif_spec::*;

// ---------------------------------------------------------------- scalar helpers

/// power(q) == floor(log2(10^q)) + 63 for every q the table covers (no wrap).
#[kani::proof]
fn c11_power_formula() {
    let q: i32 = kani::any();
    kani::assume(q >= -342 && q <= 308);
    assert!(power(q) == spec_log2_pow10(q) + 63, "C11 power(q) = floor(log2 10^q) + 63");
    kani::cover!(q == -342);
    kani::cover!(q == 308);
}

/// full_multiplication is the exact 128-bit product.
#[kani::proof]
fn c11_full_multiplication() {
    let a: u64 = kani::any();
    let b: u64 = kani::any();
    let (lo, hi) = full_multiplication(a, b);
    let p = (a as u128) * (b as u128);
    assert!(lo == p as u64 && hi == (p >> 64) as u64, "C11 full_multiplication exact");
}

/// The high word of a product of two normalised words is at least 2^62.
#[kani::proof]
fn c11_full_multiplication_norm() {
    let a: u64 = kani::any();
    let b: u64 = kani::any();
    kani::assume(a >> 63 == 1 && b >> 63 == 1);
    let (_lo, hi) = full_multiplication(a, b);
    assert!(hi >> 62 != 0, "C11 product of normalised words has hi >= 2^62");
}

/// The low word of a product with an even factor is even.
#[kani::proof]
fn c11_full_multiplication_even() {
    let a: u64 = kani::any();
    let b: u64 = kani::any();
    kani::assume(b & 1 == 0);
    let (lo, _hi) = full_multiplication(a, b);
    assert!(lo & 1 == 0, "C11 product with an even factor is even");
}

/// The high word of any 64x64 product is at most 2^64 - 2 (so the carry increment cannot overflow).
#[kani::proof]
fn c11_full_multiplication_hi_max() {
    let a: u64 = kani::any();
    let b: u64 = kani::any();
    let (_lo, hi) = full_multiplication(a, b);
    assert!(hi < u64::MAX - 1 || (a == u64::MAX && b == u64::MAX), "C11 product high word <= 2^64 - 2");
    assert!(hi < u64::MAX, "C11 product high word < 2^64 - 1");
}

// full_multiplication as an UNINTERPRETED function (Ackermann memo table): the same
// arguments give the same result, nothing else is known except the two range facts proved
// of the real function above (c11_full_multiplication_norm / _even).  Sound for every
// function with those facts, hence for the real one.
static mut UF_N: usize = 0;
static mut UF_ARGS: [(u64, u64); 4] = [(0, 0); 4];
static mut UF_RES: [(u64, u64); 4] = [(0, 0); 4];

fn uf_mul(a: u64, b: u64) -> (u64, u64) {
    unsafe {
        let mut i = 0;
        while i < UF_N {
            if UF_ARGS[i].0 == a && UF_ARGS[i].1 == b {
                return UF_RES[i];
            }
            i += 1;
        }
        let r: (u64, u64) = (kani::any(), kani::any());
        kani::assume(!(a >> 63 == 1 && b >> 63 == 1) || r.1 >> 62 != 0);
        kani::assume(b & 1 != 0 || r.0 & 1 == 0);
        kani::assume(r.1 < u64::MAX);
        assert!(UF_N < 4, "memo table large enough");
        UF_ARGS[UF_N] = (a, b);
        UF_RES[UF_N] = r;
        UF_N += 1;
        r
    }
}

/// compute_product_approx: table index in range, first product always, second product
/// exactly when the first is inconclusive at the requested precision, carry into hi;
/// for normalised w the high word is >= 2^62 (every table high word is normalised).
macro_rules! product_approx_harness {
    ($name:ident, $prec:expr) => {
        #[kani::proof]
        #[kani::unwind(6)]
        #[kani::stub(full_multiplication, uf_mul)]
        fn $name() {
            let q: i32 = kani::any();
            let w: u64 = kani::any();
            kani::assume(q >= -342 && q <= 308);
            kani::assume(w >> 63 == 1);
            let (lo, hi) = compute_product_approx(q, w, $prec);
            let (t_hi, t_lo) = POWER_OF_FIVE_128[(q + 342) as usize];
            assert!(t_hi >> 63 == 1, "C14 table high word normalised");
            let (f_lo, f_hi) = uf_mul(w, t_hi);
            let mask: u64 = u64::MAX >> $prec;
            if f_hi & mask == mask {
                let (_, s_hi) = uf_mul(w, t_lo);
                let sum = (f_lo as u128) + (s_hi as u128);
                assert!(lo == sum as u64, "C11 product lo = first_lo + second_hi (mod 2^64)");
                assert!(hi == f_hi + ((sum >> 64) as u64), "C11 product carry into hi");
            } else {
                assert!(lo == f_lo && hi == f_hi, "C11 single product when conclusive");
            }
            assert!(hi >> 62 != 0, "C11 product high word >= 2^62");
            kani::cover!(f_hi & mask == mask, "second multiplication taken");
            kani::cover!(f_hi & mask != mask, "single multiplication");
        }
    };
}
product_approx_harness!(c11_product_approx_f64, 55);
product_approx_harness!(c11_product_approx_f32, 26);

/// For q in [0, 27] (5^q < 2^64) the table's low word is zero and its high word even,
/// so the product is the EXACT value w * 5^q * 2^k, and its low word is even.
#[kani::proof]
#[kani::unwind(6)]
#[kani::stub(full_multiplication, uf_mul)]
fn c11_product_exact_q0_27() {
    let q: i32 = kani::any();
    let w: u64 = kani::any();
    let prec: usize = if kani::any() { 55 } else { 26 };
    kani::assume(q >= 0 && q <= 27);
    kani::assume(w >> 63 == 1);
    let (t_hi, t_lo) = POWER_OF_FIVE_128[(q + 342) as usize];
    assert!(t_lo == 0 && t_hi & 1 == 0 && t_hi >> 63 == 1, "C11 table entry for 5^q<2^64 is exact and even");
    let (lo, hi) = compute_product_approx(q, w, prec);
    let (f_lo, f_hi) = uf_mul(w, t_hi);
    // second product, if taken, multiplies by a zero low word: (w * 0) >> 64 == 0 is a fact of
    // the real multiplication, stated here for the uninterpreted one
    let (z_lo, z_hi) = uf_mul(w, 0);
    kani::assume(z_lo == 0 && z_hi == 0);
    assert!(lo == f_lo && hi == f_hi, "C11 product for 5^q<2^64 is the exact single product");
    assert!(lo & 1 == 0, "C11 exact product is even");
}

// ---------------------------------------------------------------- compute_float: shape

macro_rules! compute_float_shape {
    ($name:ident, $t:ty, $fmt:expr, $qmin:expr, $qmax:expr) => {
        /// compute_float::<F>(q, w) for ALL (q, w): no panic / overflow / OOB / failed
        /// debug_assert; the result is either definite (fields in range, packs to a finite
        /// non-negative float or +inf) or declined (negative exponent, normalised significand,
        /// exponent = floor(log2 10^q) + bias + 1 - hilz - lz  after un-biasing by -32768).
        #[kani::proof]
        fn $name() {
            let q: i32 = kani::any();
            let w: u64 = kani::any();
            let fp = compute_float::<$t>(q, w);
            if fp.exp >= 0 {
                assert!((fp.exp as u64) <= $fmt.inf_e, "C11 definite exponent field in range");
                assert!(fp.mant <= (1u64 << $fmt.ms), "C11 definite fraction field in range");
                assert!(fp.mant < (1u64 << $fmt.ms) || fp.exp == 1, "C11 hidden bit only on promoted subnormal");
                let bits = fp.mant | ((fp.exp as u64) << $fmt.ms);
                assert!(spec_is_finite_or_inf($fmt, bits), "C11 definite result finite or +inf, never NaN");
                if w == 0 || q < $qmin {
                    assert!(bits == 0, "C07 zero significand / hopeless underflow gives +0.0");
                } else if q > $qmax {
                    assert!(bits == $fmt.inf_e << $fmt.ms, "C07 hopeless overflow gives +inf");
                }
            } else {
                assert!(w != 0 && q >= $qmin && q <= $qmax, "C11 declines only inside the table range");
                assert!(fp.mant >> 63 == 1, "C11 declined estimate is normalised");
                let lz = w.leading_zeros() as i32;
                let unb = fp.exp - <$t as Float>::INVALID_FP;
                let base = spec_log2_pow10(q) + $fmt.bias + 1 - lz;
                assert!(unb == base || unb == base - 1, "C11 declined exponent formula");
            }
            kani::cover!(fp.exp < 0, "declined");
            kani::cover!(fp.exp == 0 && fp.mant != 0, "subnormal");
            kani::cover!(fp.exp as u64 == $fmt.inf_e && q <= $qmax, "overflow after rounding");
            kani::cover!(fp.exp == 0 && fp.mant == 0 && w != 0 && q >= $qmin, "underflow by shift");
        }
    };
}
compute_float_shape!(c11_compute_float_shape_f64, f64, F64, -342, 308);
compute_float_shape!(c11_compute_float_shape_f32, f32, F32, -65, 38);

// ---------------------------------------------------------------- compute_float: tail against the product
//
// compute_product_approx is replaced (kani::stub) by a function returning a symbolic 128-bit
// value recorded in a ghost static, so that the harness and the code share ONE product and
// only shifts/compares remain.  The stub's range (hi >= 2^62, for exact q an even low word)
// is what c11_full_multiplication_norm / c11_product_exact_q0_27 / c11_product_approx_*
// prove about the real function.

static mut GHOST_LO: u64 = 0;
static mut GHOST_HI: u64 = 0;
static mut GHOST_PREC: usize = 0;
static mut GHOST_ARGS: (i32, u64) = (0, 0);
static mut GHOST_CALLS: u32 = 0;

fn stub_product(q: i32, w: u64, precision: usize) -> (u64, u64) {
    unsafe {
        GHOST_CALLS += 1;
        GHOST_PREC = precision;
        GHOST_ARGS = (q, w);
        (GHOST_LO, GHOST_HI)
    }
}

macro_rules! compute_float_tail {
    ($name:ident, $t:ty, $fmt:expr, $qmin:expr, $qmax:expr) => {
        /// For ALL q in the table range, all w != 0 and every 128-bit product P = hi:lo with
        /// hi >= 2^62:  a definite result is the round-to-nearest-even of SOME real value in
        /// [P, P + 2^64) * 2^(floor(log2 10^q) - lz - 63)  (i.e. of the value the product denotes,
        /// up to one unit of its top 64 bits); a declined result carries exactly the top 64 bits
        /// of P and the matching exponent.
        #[kani::proof]
        #[kani::stub(compute_product_approx, stub_product)]
        fn $name() {
            let q: i32 = kani::any();
            let w: u64 = kani::any();
            let lo: u64 = kani::any();
            let hi: u64 = kani::any();
            kani::assume(q >= $qmin && q <= $qmax);
            kani::assume(w != 0);
            kani::assume(hi >> 62 != 0);
            unsafe {
                GHOST_LO = lo;
                GHOST_HI = hi;
            }
            let lz = w.leading_zeros() as i32;
            let e = spec_log2_pow10(q) - lz - 63;
            let (mant, e2, sticky) = spec_norm128(hi, lo, e);
            let fp = compute_float::<$t>(q, w);
            if unsafe { GHOST_CALLS } == 0 {
                // early out without looking at the product: only where the value is certainly below half
                // the smallest subnormal / above the largest finite value (verus_threshold_lemmas)
                let bits = fp.mant | ((fp.exp as u64) << $fmt.ms);
                let zero_ok = bits == 0 && fp.exp == 0 && q <= (if $fmt.ms == 52 { -343 } else { -65 });
                let inf_ok = bits == $fmt.inf_e << $fmt.ms && q >= (if $fmt.ms == 52 { 309 } else { 39 });
                assert!(zero_ok || inf_ok, "C07 early zero / infinity only beyond the proven thresholds");
                return;
            }
            unsafe {
                // the product is requested once, for the normalised significand, with ms + 3 bits of
                // precision (explicit bits + hidden bit + rounding bit + possible leading zero)
                assert!(GHOST_CALLS == 1, "C11 one product request");
                assert!(GHOST_ARGS == (q, w << lz), "C11 product requested for (q, normalised w)");
                assert!(GHOST_PREC >= $fmt.ms as usize + 3 && GHOST_PREC <= 64, "C11 product requested with at least ms + 3 bits of precision");
            }
            if fp.exp >= 0 {
                let bits = fp.mant | ((fp.exp as u64) << $fmt.ms);
                assert!(
                    spec_is_rne_value($fmt, mant, e2, false, bits) || spec_is_rne_value($fmt, mant, e2, true, bits),
                    "C11 definite result is the RNE of a value within one unit of the product's top 64 bits"
                );
            } else {
                // (the estimate keeps the high word only: 64 or 63 significant bits of the product)
                let est = if hi >> 63 == 1 { hi } else { hi << 1 };
                assert!(fp.mant == est, "C11 declined estimate carries the top bits of the product's high word");
                assert!(fp.exp - <$t as Float>::INVALID_FP == e2 + $fmt.bias, "C11 declined estimate exponent");
            }
            kani::cover!(fp.exp < 0);
            kani::cover!(fp.exp == 0 && fp.mant != 0, "subnormal result");
            kani::cover!(fp.exp as u64 == $fmt.inf_e, "overflow");
        }
    };
}
compute_float_tail!(c11_compute_float_tail_f64, f64, F64, -342, 308);
compute_float_tail!(c11_compute_float_tail_f32, f32, F32, -65, 38);

macro_rules! compute_float_exact {
    ($name:ident, $t:ty, $fmt:expr, $tie_max:expr, $can_overflow:expr) => {
        /// q in [0, 27]: the product is exact (c11_product_exact_q0_27), so the result must be
        /// THE correctly rounded value of w * 10^q = P * 2^(floor(log2 10^q) - lz - 63), ties to
        /// even, never declined.  For q above the tie window an exact tie cannot be a real
        /// product (lemma L-TIE: 5^q | 2m+1 < 2^(ms+2) forces q <= 23 / 10) and is excluded.
        #[kani::proof]
        #[kani::stub(compute_product_approx, stub_product)]
        fn $name() {
            let q: i32 = kani::any();
            let w: u64 = kani::any();
            let lo: u64 = kani::any();
            let hi: u64 = kani::any();
            kani::assume(q >= 0 && q <= 27);
            kani::assume(w != 0);
            kani::assume(hi >> 62 != 0);
            kani::assume(lo & 1 == 0);
            unsafe {
                GHOST_LO = lo;
                GHOST_HI = hi;
            }
            let lz = w.leading_zeros() as i32;
            let e = spec_log2_pow10(q) - lz - 63;
            let (mant, e2, sticky) = spec_norm128(hi, lo, e);
            if q > $tie_max {
                // exact ties are impossible here (L-TIE); all values here are normal (>= 1)
                let shift = 63 - $fmt.ms;
                let trunc = mant & ((1u64 << shift) - 1);
                kani::assume(!(trunc == 1u64 << (shift - 1) && !sticky));
            }
            let fp = compute_float::<$t>(q, w);
            // declining is always allowed by the property (it only costs time); a definite answer must be right
            if fp.exp >= 0 {
                let bits = fp.mant | ((fp.exp as u64) << $fmt.ms);
                assert!(spec_is_rne_value($fmt, mant, e2, sticky, bits), "C11 exact product: a definite result is the correctly rounded w*10^q");
            }
            kani::cover!(fp.exp >= 0, "definite answers exist");
            kani::cover!(q == $tie_max && !sticky && (mant & ((1u64 << (63 - $fmt.ms)) - 1)) == 1u64 << (62 - $fmt.ms), "exact tie inside the window");
            kani::cover!(!$can_overflow || fp.exp as u64 == $fmt.inf_e, "overflow");
        }
    };
}
compute_float_exact!(c11_compute_float_exact_f64, f64, F64, 23, false);
compute_float_exact!(c11_compute_float_exact_f32, f32, F32, 10, true);

// ---------------------------------------------------------------- compute_error / lemire

macro_rules! compute_error_harness {
    ($name:ident, $t:ty, $fmt:expr, $qmin:expr, $qmax:expr) => {
        /// compute_error::<F>(q, w) for q in the table range, w != 0: always a declined-form
        /// estimate: normalised significand, biased-invalid negative exponent with the formula.
        #[kani::proof]
        fn $name() {
            let q: i32 = kani::any();
            let w: u64 = kani::any();
            kani::assume(q >= $qmin && q <= $qmax && w != 0);
            let fp = compute_error::<$t>(q, w);
            assert!(fp.exp < 0 && fp.mant >> 63 == 1, "C11 compute_error returns a normalised declined estimate");
            let lz = w.leading_zeros() as i32;
            let unb = fp.exp - <$t as Float>::INVALID_FP;
            let base = spec_log2_pow10(q) + $fmt.bias + 1 - lz;
            assert!(unb == base || unb == base - 1, "C11 compute_error exponent formula");
        }
    };
}
compute_error_harness!(c11_compute_error_f64, f64, F64, -342, 308);
compute_error_harness!(c11_compute_error_f32, f32, F32, -65, 38);

// compute_float / compute_error as uninterpreted functions for the dispatch contract of `lemire`.
static mut CF_N: usize = 0;
static mut CF_ARGS: [(i32, u64); 3] = [(0, 0); 3];
static mut CF_RES: [(u64, i32); 3] = [(0, 0); 3];
static mut CE_CALLS: usize = 0;
static mut CE_ARG: (i32, u64) = (0, 0);

fn uf_compute_float<F: Float>(q: i32, w: u64) -> ExtendedFloat {
    unsafe {
        let mut i = 0;
        while i < CF_N {
            if CF_ARGS[i].0 == q && CF_ARGS[i].1 == w {
                return ExtendedFloat { mant: CF_RES[i].0, exp: CF_RES[i].1 };
            }
            i += 1;
        }
        let r = ExtendedFloat { mant: kani::any(), exp: kani::any() };
        assert!(CF_N < 3, "memo table large enough");
        CF_ARGS[CF_N] = (q, w);
        CF_RES[CF_N] = (r.mant, r.exp);
        CF_N += 1;
        r
    }
}

fn uf_compute_error<F: Float>(q: i32, w: u64) -> ExtendedFloat {
    unsafe {
        CE_CALLS += 1;
        CE_ARG = (q, w);
    }
    // contract of compute_error (c11_compute_error_*): normalised, negative (invalid-biased) exponent
    let r = ExtendedFloat { mant: kani::any(), exp: kani::any() };
    kani::assume(r.mant >> 63 == 1 && r.exp < 0);
    r
}

macro_rules! lemire_harness {
    ($name:ident, $t:ty, $fmt:expr) => {
        /// lemire::<F>(num) for ALL numbers parse_number can produce (many_digits => mantissa < 10^19),
        /// with compute_float / compute_error uninterpreted: a definite answer for a truncated
        /// significand is returned only if compute_float(q,w) == compute_float(q,w+1), and it is
        /// that common value; if they differ the result is compute_error(q,w) (a declined,
        /// un-rounded estimate); a declined first pass is returned as is; w+1 cannot overflow.
        #[kani::proof]
        #[kani::unwind(5)]
        #[kani::stub(compute_float, uf_compute_float)]
        #[kani::stub(compute_error, uf_compute_error)]
        fn $name() {
            let num = Number { exponent: kani::any(), mantissa: kani::any(), many_digits: kani::any() };
            kani::assume(!num.many_digits || num.mantissa < 10_000_000_000_000_000_000);
            let fp = lemire::<$t>(&num);
            let a = uf_compute_float::<$t>(num.exponent, num.mantissa);
            if fp.exp >= 0 {
                // a definite answer is compute_float(q,w), and for a truncated significand also compute_float(q,w+1)
                assert!(fp == a, "C11 a definite answer of lemire is compute_float(q,w)");
                if num.many_digits {
                    let b = uf_compute_float::<$t>(num.exponent, num.mantissa + 1);
                    assert!(a == b, "C11 truncated: definite only if w and w+1 agree");
                }
            } else {
                // declining is always allowed; the estimate is compute_float's own declined result or compute_error(q,w)
                assert!(fp.mant >> 63 == 1 || fp == a, "C11 a declined result is a normalised, un-rounded estimate");
                assert!(fp == a || unsafe { CE_CALLS >= 1 && CE_ARG.0 == num.exponent && CE_ARG.1 == num.mantissa }, "C11 the estimate is compute_float's or compute_error(q,w)");
            }
            kani::cover!(num.many_digits && fp.exp < 0 && a.exp >= 0, "w and w+1 disagree");
            kani::cover!(num.many_digits && fp.exp >= 0, "w and w+1 agree");
        }
    };
}
lemire_harness!(c11_lemire_truncated_f64, f64, F64);
lemire_harness!(c11_lemire_truncated_f32, f32, F32);

// ---------------------------------------------------------------- tie window (exact ties must be honoured)
//
// Inside [-4, 23] (f64) / [-17, 10] (f32) exact rounding ties exist (w = (2m+1) * 5^-q * 2^j for
// q < 0; 5^q | w... for q >= 0) and their product has a zero low word and truncated bits exactly
// "half"; the result must then be the EVEN neighbour.  The window ends are literals of this
// contract (Lemire's analysis; arithmetic bounds: verus_threshold_lemmas thr_tie_*).
// Deliberately one-sided: nothing is demanded outside the window or for a low word of 1, where no
// exact tie exists - widening the window or testing `lo == 0` keeps the property and must not alarm.
macro_rules! tie_window {
    ($name:ident, $t:ty, $fmt:expr, $wmin:expr, $wmax:expr) => {
        /// compute_float with the product as ghost: for every q INSIDE the tie window a
        /// tie-shaped product (lo == 0, truncated bits exactly half, normal range) is rounded
        /// to the EVEN neighbour.
        #[kani::proof]
        #[kani::stub(compute_product_approx, stub_product)]
        fn $name() {
            let q: i32 = kani::any();
            let w: u64 = kani::any();
            let hi: u64 = kani::any();
            kani::assume(q >= $wmin && q <= $wmax && w != 0);
            kani::assume(hi >> 62 != 0);
            // truncated bits of the (ms+2)-bit rounding candidate are exactly "half"
            let upper = (hi >> 63) as u32;
            let sh = upper + 64 - $fmt.ms - 3;
            let cand = hi >> sh; // ms+2 bits: significand plus the rounding bit
            kani::assume(cand & 1 == 1 && (cand << sh) == hi);
            unsafe {
                GHOST_LO = 0;
                GHOST_HI = hi;
            }
            let lz = w.leading_zeros() as i32;
            // stay in the normal range so that the expected fields are easy to state
            let e_field = spec_log2_pow10(q) + 63 + upper as i32 - lz + ($fmt.bias - $fmt.ms as i32 - 1) + 1;
            kani::assume(e_field >= 1 && (e_field as u64) < $fmt.inf_e - 1);
            let fp = compute_float::<$t>(q, w);
            kani::assume(fp.exp >= 0); // declining is always allowed
            let sig = cand >> 1; // ms+1 bit significand below the tie
            let rounded = if sig & 1 == 0 { sig } else { sig + 1 };
            let (m, e) = if rounded >> ($fmt.ms + 1) == 1 { (rounded >> 1, e_field + 1) } else { (rounded, e_field) };
            assert!(fp.mant == m & ((1u64 << $fmt.ms) - 1) && fp.exp == e, "C11 exact tie inside the window rounds to the even neighbour");
            kani::cover!(sig & 1 == 0 && q == $wmin, "tie rounded down to even at the lower end of the window");
            kani::cover!(sig & 1 == 0 && q == $wmax, "tie rounded down to even at the upper end of the window");
            kani::cover!(sig & 1 == 1, "tie rounded up to even");
        }
    };
}
tie_window!(c11_compute_float_tie_window_f64, f64, F64, -4, 23);
tie_window!(c11_compute_float_tie_window_f32, f32, F32, -17, 10);
