// Harness module appended to src/number.rs.
// Contracts for Number::is_fast_path / Number::try_fast_path   (C01, C02, C08, C09, C10)
//
// try_fast_path is generic over F: Float.  It is verified here for an ABSTRACT float type
// (`Spy64` / `Spy32`) that takes every associated constant from the real f64 / f32
// implementation, delegates the power look-up to the real one, and records which IEEE
// operations the generic code performs on which operands instead of performing them.
// The contract is therefore about the real generic code, and free of floating-point
// circuits: "the result is exactly ONE correctly-rounded IEEE operation (* or /) applied to
// the exact conversion of an integer m' <= 2^(ms+1) and the exact power 10^k, with
// m' * 10^k (resp. m' / 10^k) equal to the decimal value".  That one hardware operation
// rounds correctly is assumption A-IEEE; exactness of from_u64 on that range and of the
// power table are obligations c17_from_u64_exact_* / c14_float_pow10_*.
use crate::verif_spy::*;

const P10_U64: [u64; 20] = [
    1, 10, 100, 1_000, 10_000, 100_000, 1_000_000, 10_000_000, 100_000_000, 1_000_000_000,
    10_000_000_000, 100_000_000_000, 1_000_000_000_000, 10_000_000_000_000, 100_000_000_000_000,
    1_000_000_000_000_000, 10_000_000_000_000_000, 100_000_000_000_000_000,
    1_000_000_000_000_000_000, 10_000_000_000_000_000_000,
];

macro_rules! fast_path_harness {
    ($name:ident, $spy:ident, $real:ty, $ms:expr, $emin:expr, $emax:expr, $edis:expr) => {
        /// try_fast_path for ALL Number values.
        #[kani::proof]
        fn $name() {
            let num = Number { exponent: kani::any(), mantissa: kani::any(), many_digits: kani::any() };
            let m = num.mantissa;
            let e = num.exponent;
            let limit: u64 = 1u64 << ($ms + 1);
            let eligible = !num.many_digits && m <= limit && e >= $emin && e <= $edis;
            // Taking the fast path is an optimisation: `None` is always allowed by the property.
            // What is required: a value is returned ONLY inside the sound region, and it is the
            // one IEEE operation on exact operands that denotes the decimal value.
            assert!(!num.is_fast_path::<$real>() || eligible, "P-FAST is_fast_path only inside (no truncation, m <= 2^(ms+1), emin <= e <= edisguised)");
            let r = num.try_fast_path::<$spy>();
            if let Some(v) = r {
                assert!(eligible, "P-FAST a value is returned only inside the fast-path region");
                if e < 0 {
                    let k = (-(e as i64)) as usize;
                    assert!(k <= $emax as usize);
                    assert!(v == $spy(Node::DivIntPow(m, k)), "P-FAST negative exponent: from_u64(m) / 10^-e, one division");
                } else if e <= $emax {
                    assert!(v == $spy(Node::MulIntPow(m, e as usize)), "P-FAST small exponent: from_u64(m) * 10^e, one multiplication");
                } else {
                    // disguised: 10^(e - emax) moved into the significand, which must still fit 2^(ms+1)
                    let shift = (e - $emax) as usize;
                    assert!(shift <= 19);
                    let wide = (m as u128) * (P10_U64[shift] as u128);
                    assert!(wide <= limit as u128, "P-FAST disguised: never when m*10^shift exceeds 2^(ms+1)");
                    assert!(v == $spy(Node::MulIntPow(wide as u64, $emax as usize)), "P-FAST disguised: from_u64(m*10^shift) * 10^emax");
                }
            }
            kani::cover!(eligible && e > $emax && r.is_some(), "disguised fast path taken");
            kani::cover!(eligible && e > $emax && r.is_none(), "disguised fast path declined");
            kani::cover!(eligible && e < 0);
            kani::cover!(!eligible);
        }
    };
}
fast_path_harness!(pfast_try_fast_path_f64, Spy64, f64, 52, -22, 22, 37);
fast_path_harness!(pfast_try_fast_path_f32, Spy32, f32, 23, -10, 10, 17);

macro_rules! fast_path_native {
    ($name:ident, $real:ty, $fmt:expr) => {
        /// The real float instantiation: same Some/None decision as the abstract one, result
        /// never NaN, never negative, zero significand gives +0.0; no panic or OOB for ALL Numbers.
        #[kani::proof]
        fn $name() {
            let num = Number { exponent: kani::any(), mantissa: kani::any(), many_digits: kani::any() };
            let r = num.try_fast_path::<$real>();
            if let Some(x) = r {
                let bits = <$real as Float>::to_bits(x);
                assert!(crate::verif_spec::spec_is_finite_or_inf($fmt, bits), "P-FAST result finite, non-negative, not NaN");
                assert!(bits >> $fmt.ms != $fmt.inf_e, "P-FAST result never infinite (m<=2^(ms+1), e<=emax)");
                if num.mantissa == 0 {
                    assert!(bits == 0, "C07 zero significand gives +0.0 on the fast path");
                }
            }
            kani::cover!(r.is_some());
        }
    };
}
fast_path_native!(pfast_native_f64, f64, crate::verif_spec::F64);
fast_path_native!(pfast_native_f32, f32, crate::verif_spec::F32);
