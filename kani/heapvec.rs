// Harness module appended to src/heapvec.rs (configurations with `alloc`).
// HeapVec delegates to Vec (Kani's model of alloc::vec::Vec is trusted); contracts on vectors
// of up to 3 limbs: the visible contents equal the reference sequence after each operation.

fn any_small(len: usize) -> (HeapVec, [bigint::Limb; 3]) {
    let a: [bigint::Limb; 3] = kani::any();
    let v = HeapVec::try_from(&a[..len]).unwrap();
    // the heap back end provides at least the design capacity (62 limbs): operations whose result
    // fits 62 limbs must not fail (shl_limbs compares against capacity())
    assert!(v.capacity() >= bigint::BIGINT_LIMBS, "C12/C04 heap vector has the 62-limb design capacity");
    (v, a)
}

fn heap_ops_case(len: usize) {
    // try_push / pop
    {
        let (mut v, a) = any_small(len);
        let x: bigint::Limb = kani::any();
        assert!(v.try_push(x) == Some(()) && v.len() == len + 1 && v[len] == x, "C13 heap push appends");
        let i: usize = kani::any();
        assert!(!(i < len) || v[i] == a[i], "C13 heap push keeps the prefix");
        assert!(v.pop() == Some(x) && v.len() == len, "C13 heap pop returns the last element");
        assert!(v.len() <= v.capacity(), "C13 length never exceeds the capacity");
    }
    // try_extend
    {
        let (mut v, a) = any_small(len);
        let s: [bigint::Limb; 2] = kani::any();
        assert!(v.try_extend(&s) == Some(()) && v.len() == len + 2 && v[len] == s[0] && v[len + 1] == s[1], "C13 heap extend appends in order");
        let i: usize = kani::any();
        assert!(!(i < len) || v[i] == a[i], "C13 heap extend keeps the prefix");
    }
    // try_resize up and down
    {
        let (mut v, a) = any_small(len);
        let fill: bigint::Limb = kani::any();
        assert!(v.try_resize(len + 2, fill) == Some(()) && v.len() == len + 2 && v[len] == fill && v[len + 1] == fill, "C13 heap resize fills");
        let i: usize = kani::any();
        assert!(!(i < len) || v[i] == a[i], "C13 heap resize keeps the prefix");
        assert!(v.try_resize(1, 0) == Some(()) && v.len() == 1, "C13 heap resize truncates");
        assert!(len == 0 || v[0] == a[0]);
    }
    // normalize / is_normalized
    {
        let (mut v, a) = any_small(len);
        let was = v.is_normalized();
        assert!(was == (len == 0 || a[len - 1] != 0), "C13 heap is_normalized");
        v.normalize();
        let n = v.len();
        assert!(n <= len && (n == 0 || a[n - 1] != 0) && v.is_normalized(), "C13 heap normalize strips trailing zero limbs");
        let j: usize = kani::any();
        assert!(!(j >= n && j < len) || a[j] == 0, "C13 heap normalize removes only zeros");
    }
}

#[kani::proof]
#[kani::unwind(8)]
fn c13_heap_ops_len0_1() {
    heap_ops_case(0);
    heap_ops_case(1);
}

#[kani::proof]
#[kani::unwind(8)]
fn c13_heap_ops_len3() {
    heap_ops_case(3);
}

/// shl_limbs on the heap back end: succeeds whenever the result fits 62 limbs
#[kani::proof]
#[kani::unwind(8)]
fn c12_heap_shl_limbs() {
    let (mut v, a) = any_small(2);
    let n: usize = kani::any();
    kani::assume(n >= 1 && n <= 60);
    assert!(bigint::shl_limbs(&mut v, n) == Some(()), "C12 heap shl_limbs within the design capacity succeeds");
    assert!(v.len() == 2 + n && v[n] == a[0] && v[n + 1] == a[1] && v[0] == 0 && v[n - 1] == 0, "C12 heap shl_limbs moves limbs and zero-fills");
    assert!(HeapVec::new().capacity() >= bigint::BIGINT_LIMBS);
}

#[kani::proof]
#[kani::unwind(34)]
fn c13_heap_eq_cmp() {
    let (x, a) = any_small(2);
    let (y, b) = any_small(2);
    assert!((x == y) == (a[0] == b[0] && a[1] == b[1]), "C13 heap eq is sequence equality");
    let ord = x.cmp(&y);
    assert!(x.partial_cmp(&y) == Some(ord));
    let num = if a[1] != b[1] { a[1].cmp(&b[1]) } else { a[0].cmp(&b[0]) };
    assert!(ord == num, "C13 heap cmp is most-significant-limb-first");
    let (z, _c) = any_small(1);
    assert!(z.cmp(&x) == cmp::Ordering::Less, "C13 heap cmp: shorter vector is smaller");
    let f = HeapVec::from_u64(kani::any());
    assert!(f.len() <= 1 && f.is_normalized(), "C13 heap from_u64 normalised");
}
