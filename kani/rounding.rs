// Harness module appended to src/rounding.rs as `#[cfg(kani)] mod verif_kani`.
// Contracts for: round, round_nearest_tie_even, round_down   (property C18)
use crate::verif_spec::*;

fn pack(ms: u32, fp: &ExtendedFloat) -> u64 {
    // the caller-side packing of the two fields (literal shift, bit OR)
    fp.mant | ((fp.exp as u64) << ms)
}

fn any_round_input(max_exp: i32) -> ExtendedFloat {
    let mant: u64 = kani::any();
    let exp: i32 = kani::any();
    // PRE (C18): top bit set, biased exponent in the range the callers guarantee
    kani::assume(mant >> 63 == 1);
    kani::assume(exp >= -63 && exp <= max_exp);
    ExtendedFloat { mant, exp }
}

macro_rules! round_rne_harness {
    ($name:ident, $t:ty, $fmt:expr, $max_exp:expr) => {
        /// round::<F>(nearest-even callback exactly as the call sites pass it):
        /// ensures packed fields == RNE(mant * 2^(exp - bias)) for all inputs in range.
        #[kani::proof]
        fn $name() {
            let pre = any_round_input($max_exp);
            let mut fp = pre;
            round::<$t, _>(&mut fp, |f, s| {
                round_nearest_tie_even(f, s, |is_odd, is_halfway, is_above| {
                    is_above || (is_odd && is_halfway)
                });
            });
            // POST: fields in range, packing is the nearest float
            assert!(fp.exp >= 0 && (fp.exp as u64) <= $fmt.inf_e, "C18 exponent field in range");
            assert!(fp.mant <= (1u64 << $fmt.ms), "C18 fraction field in range");
            let bits = pack($fmt.ms, &fp);
            assert!(spec_is_finite_or_inf($fmt, bits), "C18 result finite or +inf");
            assert!(spec_is_rne($fmt, pre.mant, pre.exp, bits), "C18 round is nearest-even");
            // reachability of the interesting regions (vacuity guard)
            kani::cover!(bits >> $fmt.ms == 0 && bits != 0, "subnormal result");
            kani::cover!(bits == 1u64 << $fmt.ms && pre.exp < 0, "rounded-up subnormal becomes smallest normal");
            kani::cover!(bits >> $fmt.ms == $fmt.inf_e, "overflow to infinity");
            kani::cover!(bits == 0, "rounds to zero");
        }
    };
}
round_rne_harness!(c18_round_rne_f64, f64, F64, 2100);
round_rne_harness!(c18_round_rne_f32, f32, F32, 320);

macro_rules! round_rtz_harness {
    ($name:ident, $t:ty, $fmt:expr, $max_exp:expr) => {
        /// round::<F>(round_down): ensures packed fields == largest float not above the value.
        #[kani::proof]
        fn $name() {
            let pre = any_round_input($max_exp);
            let mut fp = pre;
            round::<$t, _>(&mut fp, round_down);
            assert!(fp.exp >= 0 && (fp.exp as u64) <= $fmt.inf_e, "C18 exponent field in range");
            assert!(fp.mant <= (1u64 << $fmt.ms), "C18 fraction field in range");
            let bits = pack($fmt.ms, &fp);
            assert!(spec_is_finite_or_inf($fmt, bits), "C18 result finite or +inf");
            assert!(spec_is_rtz($fmt, pre.mant, pre.exp, bits), "C18 round_down truncates");
            kani::cover!(bits >> $fmt.ms == 0 && bits != 0, "subnormal result");
            kani::cover!(bits == 0, "truncates to zero");
        }
    };
}
round_rtz_harness!(c18_round_rtz_f64, f64, F64, 2100);
round_rtz_harness!(c18_round_rtz_f32, f32, F32, 320);

/// round_nearest_tie_even: for every shift 0..=64 the callback receives flags that
/// describe the truncated bits exactly, and the result is (mant >> shift) + cb(..),
/// exponent advanced by shift.
#[kani::proof]
fn c18_rnte_flags() {
    let mant: u64 = kani::any();
    let exp: i32 = kani::any();
    let shift: i32 = kani::any();
    let decision: bool = kani::any();
    kani::assume(shift >= 0 && shift <= 64);
    kani::assume(exp >= -5000 && exp <= 5000);
    // PRE: the increment cannot overflow (only possible for shift == 0, which no caller uses)
    kani::assume(shift > 0 || mant < u64::MAX || !decision);
    let mut fp = ExtendedFloat { mant, exp };
    let m128 = mant as u128;
    let trunc = m128 & ((1u128 << shift) - 1);
    let half = if shift == 0 { 0 } else { 1u128 << (shift - 1) };
    let q = (m128 >> shift) as u64;
    round_nearest_tie_even(&mut fp, shift, |is_odd, is_halfway, is_above| {
        assert!(is_odd == (q & 1 == 1), "C18 is_odd flag");
        assert!(is_halfway == (trunc == half), "C18 is_halfway flag");
        assert!(is_above == (trunc > half), "C18 is_above flag");
        decision
    });
    assert!(fp.mant == q + decision as u64, "C18 shifted significand");
    assert!(fp.exp == exp + shift, "C18 exponent advanced by shift");
    kani::cover!(shift == 64 && mant != 0, "full-width shift");
    kani::cover!(shift == 0, "zero shift");
}

/// round_down: plain truncating shift for every shift 0..=64.
#[kani::proof]
fn c18_round_down_shift() {
    let mant: u64 = kani::any();
    let exp: i32 = kani::any();
    let shift: i32 = kani::any();
    kani::assume(shift >= 0 && shift <= 64);
    kani::assume(exp >= -5000 && exp <= 5000);
    let mut fp = ExtendedFloat { mant, exp };
    round_down(&mut fp, shift);
    assert!(fp.mant as u128 == (mant as u128) >> shift, "C18 round_down shift");
    assert!(fp.exp == exp + shift, "C18 round_down exponent");
    kani::cover!(shift == 64 && mant != 0);
}

/// The sticky variant used for large integers (`is_halfway && is_truncated` rounds up):
/// with `is_truncated` the exact value lies strictly between mant and mant+1 (same scale),
/// and the result must be the nearest-even rounding of every such value.
macro_rules! round_sticky_harness {
    ($name:ident, $t:ty, $fmt:expr, $max_exp:expr) => {
        #[kani::proof]
        fn $name() {
            let pre = any_round_input($max_exp);
            let is_truncated: bool = kani::any();
            let mut fp = pre;
            round::<$t, _>(&mut fp, |f, s| {
                round_nearest_tie_even(f, s, |is_odd, is_halfway, is_above| {
                    is_above || (is_halfway && is_truncated) || (is_odd && is_halfway)
                });
            });
            assert!(fp.exp >= 0 && (fp.exp as u64) <= $fmt.inf_e, "C18 exponent field in range");
            assert!(fp.mant <= (1u64 << $fmt.ms), "C18 fraction field in range");
            let bits = pack($fmt.ms, &fp);
            assert!(spec_is_finite_or_inf($fmt, bits), "C18 result finite or +inf");
            assert!(
                spec_is_rne_sticky($fmt, pre.mant, pre.exp, is_truncated, bits),
                "C18 sticky round is nearest-even of the exact value"
            );
            kani::cover!(is_truncated && !spec_is_rne($fmt, pre.mant, pre.exp, bits), "sticky bit broke a tie upward");
        }
    };
}
round_sticky_harness!(c18_round_sticky_f64, f64, F64, 2100);
round_sticky_harness!(c18_round_sticky_f32, f32, F32, 320);
