// Harness module appended to src/bigint.rs.
// Contracts for the big-integer arithmetic (C12, C04, C08).  Oracle: fixed-width reference
// naturals (verif_spec::RefNat, value semantics).  Multi-limb obligations are BOUNDED in the
// operand length (stated per harness); the scalar layer is proved for all inputs.
use crate::verif_spec::*;

const CAP: usize = 62;

// ---------------------------------------------------------------- scalar layer (all inputs)

#[kani::proof]
fn c12_scalar_add() {
    let x: Limb = kani::any();
    let y: Limb = kani::any();
    let (r, c) = scalar_add(x, y);
    let s = x as u128 + y as u128;
    assert!(r == s as u64 && c == (s >> 64 != 0), "C12 scalar_add exact with carry");
}

#[kani::proof]
fn c12_scalar_mul() {
    let x: Limb = kani::any();
    let y: Limb = kani::any();
    let c: Limb = kani::any();
    let (lo, hi) = scalar_mul(x, y, c);
    let z = (x as u128) * (y as u128) + (c as u128);
    assert!(lo == z as u64 && hi == (z >> 64) as u64, "C12 scalar_mul == x*y + carry exactly");
}

/// top-64-bits helpers on one / two limbs (r0 != 0: normalised input)
#[kani::proof]
fn c12_u64_to_hi64() {
    let r0: u64 = kani::any();
    let r1: u64 = kani::any();
    kani::assume(r0 != 0);
    let (v1, n1) = u64_to_hi64_1(r0);
    assert!(v1 == r0 << r0.leading_zeros() && !n1, "C12 u64_to_hi64_1");
    let (v2, n2) = u64_to_hi64_2(r0, r1);
    let v128 = ((r0 as u128) << 64) | r1 as u128;
    let sh = v128 << v128.leading_zeros();
    assert!(v2 == (sh >> 64) as u64, "C12 u64_to_hi64_2 top 64 bits");
    assert!(n2 == (sh as u64 != 0), "C12 u64_to_hi64_2 lower-bits flag");
}

// ---------------------------------------------------------------- helpers

fn vec_from(a: &[Limb]) -> VecType {
    VecType::try_from(a).unwrap()
}

/// a vector of the given CONCRETE length (harnesses enumerate the lengths) with symbolic
/// limbs, plus its reference value
fn any_vec(len: usize) -> (VecType, RefNat, usize) {
    let a: [Limb; 4] = kani::any();
    let v = vec_from(&a[..len]);
    let r = ref_from_slice(&a[..len]);
    (v, r, len)
}

fn reset_uf() {
    unsafe {
        UF_N = 0;
    }
}

fn value_of(v: &VecType) -> RefNat {
    ref_from_slice(v)
}

// scalar_mul replaced by its contract over an UNINTERPRETED commutative 64x64->128 product.
// The harness declares up-front every operand pair the operation can multiply
// (`declare_product`); each gets a fresh symbolic 128-bit result, constrained only by
// functional consistency (equal unordered operand pairs => equal results: Ackermann's
// reduction) and by the facts of the real product that the code relies on:
// hi <= 2^64-2 and 0*y == 0 (c12_scalar_mul proves scalar_mul == x*y+c exactly).
// A product of an undeclared pair fails the harness.
const UF_CAP: usize = 6;
static mut UF_N: usize = 0;
static mut UF_A: [(u64, u64); UF_CAP] = [(0, 0); UF_CAP];
static mut UF_R: [(u64, u64); UF_CAP] = [(0, 0); UF_CAP];

fn canon(a: u64, b: u64) -> (u64, u64) {
    if a <= b { (a, b) } else { (b, a) }
}

fn declare_product(a: u64, b: u64) {
    let (a, b) = canon(a, b);
    let r: (u64, u64) = (kani::any(), kani::any());
    kani::assume(r.1 < u64::MAX);
    unsafe {
        let mut i = 0;
        while i < UF_N {
            kani::assume(!(UF_A[i].0 == a && UF_A[i].1 == b) || UF_R[i] == r);
            i += 1;
        }
        assert!(UF_N < UF_CAP);
        UF_A[UF_N] = (a, b);
        UF_R[UF_N] = r;
        UF_N += 1;
    }
}

fn uf_mul2(a: u64, b: u64) -> (u64, u64) {
    let (a, b) = canon(a, b);
    if a == 0 {
        return (0, 0);
    }
    unsafe {
        let mut i = 0;
        while i < UF_N {
            if UF_A[i].0 == a && UF_A[i].1 == b {
                return UF_R[i];
            }
            i += 1;
        }
    }
    assert!(false, "product of an operand pair the harness did not declare");
    (0, 0)
}

fn stub_scalar_mul(x: Limb, y: Limb, carry: Limb) -> (Limb, Limb) {
    let (lo, hi) = uf_mul2(x, y);
    let s = lo as u128 + carry as u128;
    (s as u64, hi + (s >> 64) as u64)
}

// ---------------------------------------------------------------- small_add / small_mul

/// small_add_from(x, y, start), x of <= 3 limbs, start <= len:  value' = value + y * 2^(64 start)
fn small_add_from_case(len: usize, start: usize) {
    let (mut x, rx, len) = any_vec(len);
    let y: Limb = kani::any();
    let r = small_add_from(&mut x, y, start);
    assert!(r.is_some(), "C12 small_add_from within capacity succeeds");
    let mut ry = [0u64; W];
    ry[start] = y;
    let (expect, _) = ref_add(&rx, &ry);
    assert!(ref_eq(&value_of(&x), &expect), "C12 small_add_from adds y * 2^(64 start)");
    assert!(x.len() == len || x.len() == len + 1, "C12 small_add_from grows by at most one limb");
    kani::cover!(x.len() == len + 1, "carry ripples through every limb");
}

#[kani::proof]
#[kani::unwind(10)]
fn c12_small_add_from() {
    let mut len = 0;
    while len <= 3 {
        let mut start = 0;
        while start <= len {
            small_add_from_case(len, start);
            start += 1;
        }
        len += 1;
    }
}

/// small_mul(x, y), x of <= 3 limbs: value' = value * y   (scalar_mul by contract)
fn small_mul_case(len: usize) {
    reset_uf();
    let (mut x, rx, len) = any_vec(len);
    let y: Limb = kani::any();
    let mut i = 0;
    while i < len {
        declare_product(x[i], y);
        i += 1;
    }
    let r = small_mul(&mut x, y);
    assert!(r.is_some());
    let (expect, ovf) = ref_mul_limb(&rx, y, uf_mul2);
    assert!(!ovf);
    assert!(ref_eq(&value_of(&x), &expect), "C12 small_mul multiplies the value by y");
    assert!(x.len() == len || x.len() == len + 1);
    kani::cover!(x.len() == len + 1 || len == 0);
}

#[kani::proof]
#[kani::unwind(10)]
#[kani::stub(scalar_mul, stub_scalar_mul)]
fn c12_small_mul() {
    small_mul_case(0);
    small_mul_case(1);
    small_mul_case(2);
    small_mul_case(3);
}

/// capacity edge: at 62 limbs a carry out of small_add / small_mul / shl_bits is reported as
/// None (nothing is written outside the buffer: checked by Kani's pointer checks), at 61 it is pushed.
fn edge_case(len: usize) {
    let y: Limb = kani::any();
    {
        let mut x = VecType::new();
        x.try_resize(len, u64::MAX).unwrap();
        kani::assume(y != 0);
        // all limbs are 2^64-1: adding y >= 1 carries out of the top
        let r = small_add(&mut x, y);
        assert!(r.is_some() == (len < CAP), "C12 small_add reports overflow of the capacity");
        assert!(x.len() == if len < CAP { len + 1 } else { CAP });
    }
    {
        let mut x = VecType::new();
        x.try_resize(len, u64::MAX).unwrap();
        // 3 * (2^(64 len) - 1) needs len + 1 limbs
        let r = small_mul(&mut x, 3);
        assert!(r.is_some() == (len < CAP), "C12 small_mul reports overflow of the capacity");
        assert!(x.len() == if len < CAP { len + 1 } else { CAP });
    }
    {
        let mut x = VecType::new();
        x.try_resize(len, u64::MAX).unwrap();
        let n: usize = kani::any();
        kani::assume(n >= 1 && n < 64);
        let r = shl_bits(&mut x, n);
        assert!(r.is_some() == (len < CAP), "C12 shl_bits reports overflow of the capacity");
        assert!(x.len() == if len < CAP { len + 1 } else { CAP });
    }
}

/// quick variant: small_mul alone at exactly 62 limbs: 3 * (2^3968 - 1) needs 63 limbs => None
#[cfg(not(feature = "alloc"))]
#[kani::proof]
#[kani::unwind(64)]
fn c12_capacity_edge_small_mul() {
    let mut x = VecType::new();
    x.try_resize(CAP, u64::MAX).unwrap();
    let r = small_mul(&mut x, 3);
    assert!(r.is_none(), "C12 small_mul reports overflow of the capacity");
    assert!(x.len() == CAP);
    let mut y = VecType::new();
    y.try_resize(CAP, u64::MAX).unwrap();
    let r = small_add(&mut y, 1);
    assert!(r.is_none() && y.len() == CAP, "C12 small_add reports overflow of the capacity");
}

#[kani::proof]
#[kani::unwind(64)]
fn c12_capacity_edge_small_ops() {
    edge_case(CAP - 1);
    edge_case(CAP);
}

// ---------------------------------------------------------------- large_add / long_mul

/// large_add_from(x, y, start): x <= 3 limbs, y <= 3 limbs, start <= 2:
/// value' = value + val(y) * 2^(64 start)
fn large_add_from_case(lx: usize, ly: usize, start: usize) {
    let (mut x, rx, _lx) = any_vec(lx);
    let yb: [Limb; 3] = kani::any();
    let r = large_add_from(&mut x, &yb[..ly], start);
    assert!(r.is_some());
    let ry = ref_from_slice(&yb[..ly]);
    let (sh, lost) = ref_shl_limbs(&ry, start);
    assert!(!lost);
    let (expect, ovf) = ref_add(&rx, &sh);
    assert!(!ovf);
    assert!(ref_eq(&value_of(&x), &expect), "C12 large_add_from adds val(y) * 2^(64 start)");
    kani::cover!(x.len() == (if lx > ly + start { lx } else { ly + start }) + 1 || ly == 0, "carry out of the top limb grows the vector");
}

macro_rules! large_add_from_h {
    ($name:ident, $lx:expr) => {
        #[kani::proof]
        #[kani::unwind(10)]
        fn $name() {
            let mut ly = 0;
            while ly <= 3 {
                let mut start = 0;
                while start <= 2 {
                    large_add_from_case($lx, ly, start);
                    start += 1;
                }
                ly += 1;
            }
        }
    };
}
large_add_from_h!(c12_large_add_from_x0, 0);
large_add_from_h!(c12_large_add_from_x1, 1);
large_add_from_h!(c12_large_add_from_x2, 2);
large_add_from_h!(c12_large_add_from_x3, 3);

/// long_mul(x, y): x, y of 1..=2 limbs (scalar_mul by contract): value = val(x) * val(y),
/// result normalised.
fn long_mul_case(lx: usize, ly: usize) {
    reset_uf();
    let xa: [Limb; 3] = kani::any();
    let ya: [Limb; 3] = kani::any();
    let mut i = 0;
    while i < lx {
        let mut j = 0;
        while j < ly {
            declare_product(xa[i], ya[j]);
            j += 1;
        }
        i += 1;
    }
    // operands as the callers establish them: normalised (top limb non-zero); inner limbs may be zero
    kani::assume(xa[lx - 1] != 0 && ya[ly - 1] != 0);
    let z = long_mul(&xa[..lx], &ya[..ly]).unwrap();
    // reference: sum_j (x * y_j) << 64 j
    let rx = ref_from_slice(&xa[..lx]);
    let mut acc = [0u64; W];
    let mut j = 0;
    while j < 3 {
        if j < ly {
            let (row, o1) = ref_mul_limb(&rx, ya[j], uf_mul2);
            let (sh, o2) = ref_shl_limbs(&row, j);
            let (s, o3) = ref_add(&acc, &sh);
            assert!(!o1 && !o2 && !o3);
            acc = s;
        }
        j += 1;
    }
    assert!(ref_eq(&value_of(&z), &acc), "C12 long_mul is the product of the values");
    assert!(is_normalized(&z), "C12 long_mul result normalised");
    kani::cover!(z.len() == lx + ly);
}

/// long_mul with CONCRETE zero limbs inside the multiplier (y = [0, y1] and y = [y0, 0, y2]):
/// a zero limb contributes nothing but still counts for the position of the limbs above it.
#[kani::proof]
#[kani::unwind(10)]
#[kani::stub(scalar_mul, stub_scalar_mul)]
fn c12_long_mul_zero_limb() {
    reset_uf();
    let x0: Limb = kani::any();
    let y1: Limb = kani::any();
    kani::assume(x0 != 0 && y1 != 0);
    declare_product(x0, y1);
    let z = long_mul(&[x0], &[0, y1]).unwrap();
    let (lo, hi) = uf_mul2(x0, y1);
    let expect: RefNat = [0, lo, hi, 0, 0, 0, 0, 0];
    assert!(ref_eq(&value_of(&z), &expect), "C12 long_mul: zero low limb of the multiplier shifts the product by one limb");
}

#[kani::proof]
#[kani::unwind(10)]
#[kani::stub(scalar_mul, stub_scalar_mul)]
fn c12_long_mul_zero_inner_limb() {
    reset_uf();
    let x0: Limb = kani::any();
    let y0: Limb = kani::any();
    let y2: Limb = kani::any();
    kani::assume(x0 != 0 && y2 != 0);
    declare_product(x0, y0);
    declare_product(x0, y2);
    let z = long_mul(&[x0], &[y0, 0, y2]).unwrap();
    let (a_lo, a_hi) = uf_mul2(x0, y0);
    let (b_lo, b_hi) = uf_mul2(x0, y2);
    // x0*y0 + x0*y2 * 2^128 : the rows do not overlap
    let expect: RefNat = [a_lo, a_hi, b_lo, b_hi, 0, 0, 0, 0];
    assert!(ref_eq(&value_of(&z), &expect), "C12 long_mul: a zero inner limb keeps the position of the limb above it");
}

macro_rules! long_mul_h {
    ($name:ident, $lx:expr, $ly:expr) => {
        #[kani::proof]
        #[kani::unwind(10)]
        #[kani::stub(scalar_mul, stub_scalar_mul)]
        fn $name() {
            long_mul_case($lx, $ly);
        }
    };
}
long_mul_h!(c12_long_mul_1x1, 1, 1);
long_mul_h!(c12_long_mul_1x2, 1, 2);
long_mul_h!(c12_long_mul_2x1, 2, 1);
long_mul_h!(c12_long_mul_2x2, 2, 2);
long_mul_h!(c12_long_mul_1x3, 1, 3);
long_mul_h!(c12_long_mul_3x1, 3, 1);

/// large_mul(x, y): dispatch: one-limb y -> small_mul, otherwise x = long_mul(y, x)
fn large_mul_case(lx: usize, ly: usize) {
    reset_uf();
    let (mut x, rx, lx) = any_vec(lx);
    let ya: [Limb; 2] = kani::any();
    let mut i = 0;
    while i < lx {
        let mut j = 0;
        while j < ly {
            declare_product(x[i], ya[j]);
            j += 1;
        }
        i += 1;
    }
    kani::assume(x[lx - 1] != 0 && ya[ly - 1] != 0);
    let r = large_mul(&mut x, &ya[..ly]);
    assert!(r.is_some());
    let mut acc = [0u64; W];
    let mut j = 0;
    while j < 2 {
        if j < ly {
            let (row, _) = ref_mul_limb(&rx, ya[j], uf_mul2);
            let (sh, _) = ref_shl_limbs(&row, j);
            let (s, _) = ref_add(&acc, &sh);
            acc = s;
        }
        j += 1;
    }
    assert!(ref_eq(&value_of(&x), &acc), "C12 large_mul multiplies the value by val(y)");
}

macro_rules! large_mul_h {
    ($name:ident, $lx:expr, $ly:expr) => {
        #[kani::proof]
        #[kani::unwind(10)]
        #[kani::stub(scalar_mul, stub_scalar_mul)]
        fn $name() {
            large_mul_case($lx, $ly);
        }
    };
}
large_mul_h!(c12_large_mul_1x1, 1, 1);
large_mul_h!(c12_large_mul_1x2, 1, 2);
large_mul_h!(c12_large_mul_2x1, 2, 1);
large_mul_h!(c12_large_mul_2x2, 2, 2);

/// The `*=` operators (Bigint *= &Bigint, VecType *= &[Limb]) are large_mul + unwrap.
#[kani::proof]
#[kani::unwind(10)]
#[kani::stub(scalar_mul, stub_scalar_mul)]
fn c12_mul_assign_wrappers() {
    reset_uf();
    let (x, rx, _) = any_vec(1);
    let y: Limb = kani::any();
    declare_product(x[0], y);
    let (expect, _) = ref_mul_limb(&rx, y, uf_mul2);
    let mut a = Bigint { data: vec_from(&[x[0]]) };
    let b = Bigint { data: vec_from(&[y]) };
    a *= &b;
    assert!(ref_eq(&value_of(&a.data), &expect), "C12 Bigint *= &Bigint multiplies the values");
    let mut v = vec_from(&[x[0]]);
    v *= &[y][..];
    assert!(ref_eq(&value_of(&v), &expect), "C12 VecType *= &[Limb] multiplies the values");
}

// ---------------------------------------------------------------- shifts

/// shl_bits(x, n): x <= 3 limbs, 1 <= n <= 63: value' = value * 2^n
fn shl_bits_case(len: usize) {
    let (mut x, rx, len) = any_vec(len);
    let n: usize = kani::any();
    kani::assume(n >= 1 && n < 64);
    let r = shl_bits(&mut x, n);
    assert!(r.is_some());
    let (expect, lost) = ref_shl_bits(&rx, n as u32);
    assert!(!lost);
    assert!(ref_eq(&value_of(&x), &expect), "C12 shl_bits multiplies the value by 2^n");
    assert!(x.len() == len || x.len() == len + 1);
}

#[kani::proof]
#[kani::unwind(10)]
fn c12_shl_bits() {
    shl_bits_case(0);
    shl_bits_case(1);
    shl_bits_case(2);
    shl_bits_case(3);
}

/// shl_limbs(x, n): x <= 3 limbs (symbolic), any n >= 1: fails iff n + len > 62, otherwise
/// value' = value * 2^(64 n): checked limb-wise on the vector itself (no width limit).
fn shl_limbs_case(len: usize, n: usize) {
    let a: [Limb; 3] = kani::any();
    let mut x = vec_from(&a[..len]);
    let r = shl_limbs(&mut x, n);
    if n + len > CAP {
        assert!(r.is_none() && x.len() == len, "C12 shl_limbs reports overflow, contents unchanged");
    } else {
        assert!(r.is_some());
        if len == 0 {
            assert!(x.len() == 0, "C12 shifting zero stays zero");
        } else {
            assert!(x.len() == len + n, "C12 shl_limbs grows by n limbs");
            let i: usize = kani::any();
            if i < x.len() {
                let expect = if i < n { 0 } else { a[i - n] };
                assert!(x[i] == expect, "C12 shl_limbs moves limbs up by n and zero-fills");
            }
        }
    }
}

// every length 0..=3 against small shifts and the shifts around the capacity edge
macro_rules! shl_limbs_h {
    ($name:ident, $len:expr) => {
        #[kani::proof]
        #[kani::unwind(10)]
        fn $name() {
            shl_limbs_case($len, 1);
            shl_limbs_case($len, 17);
            shl_limbs_case($len, CAP - $len - 1 + ($len == 0) as usize);
            shl_limbs_case($len, CAP - $len + ($len == 0) as usize);
            shl_limbs_case($len, CAP - $len + 1);
            shl_limbs_case($len, 70);
        }
    };
}
shl_limbs_h!(c12_shl_limbs_len0, 0);
shl_limbs_h!(c12_shl_limbs_len1, 1);
shl_limbs_h!(c12_shl_limbs_len2, 2);
shl_limbs_h!(c12_shl_limbs_len3, 3);

/// shl(x, n): x <= 2 limbs, n < 256: value' = value * 2^n
fn shl_case(len: usize, div: usize) {
    let (mut x, rx, len) = any_vec(len);
    let rem0: usize = kani::any();
    kani::assume(rem0 < 64);
    let n = div * 64 + rem0;
    let r = shl(&mut x, n);
    assert!(r.is_some());
    let rem = (n % 64) as u32;
    let div = n / 64;
    let (a, l1) = if rem != 0 { ref_shl_bits(&rx, rem) } else { (rx, false) };
    let (expect, l2) = ref_shl_limbs(&a, div);
    assert!(!l1 && !l2);
    assert!(ref_eq(&value_of(&x), &expect), "C12 shl multiplies the value by 2^n");
    kani::cover!(n % 64 == 0);
    kani::cover!(n % 64 == 63);
}

macro_rules! shl_h {
    ($name:ident, $len:expr) => {
        #[kani::proof]
        #[kani::unwind(10)]
        fn $name() {
            shl_case($len, 0);
            shl_case($len, 1);
            shl_case($len, 3);
        }
    };
}
shl_h!(c12_shl_len0, 0);
shl_h!(c12_shl_len1, 1);
shl_h!(c12_shl_len2, 2);

// ---------------------------------------------------------------- top bits / bit length

/// hi64 / bit_length / leading_zeros on normalised vectors of 1..=4 limbs against the
/// definition on the value: top 64 bits + "any lower bit set".
fn hi64_case(len: usize) {
    let (x, rx, len) = any_vec(len);
    kani::assume(is_normalized(&x));
    let (top, sticky) = hi64(&x);
    let (etop, esticky) = ref_hi64(&rx);
    assert!(top == etop, "C12 hi64 top 64 bits of the value");
    assert!(sticky == esticky, "C12 hi64 lower-bits-non-zero flag covers ALL lower limbs");
    assert!(bit_length(&x) == ref_bit_length(&rx), "C12 bit_length of the value");
    assert!(leading_zeros(&x) == 64 * len as u32 - ref_bit_length(&rx), "C12 leading_zeros");
    kani::cover!(len < 3 || (sticky && x[0] != 0 && x[len - 2] == 0 && (len < 4 || x[1] == 0)), "only the lowest limb makes it sticky");
}

macro_rules! hi64_h {
    ($name:ident, $len:expr) => {
        #[kani::proof]
        #[kani::unwind(66)]
        fn $name() {
            hi64_case($len);
        }
    };
}
hi64_h!(c12_hi64_bit_length_1, 1);
hi64_h!(c12_hi64_bit_length_2, 2);
hi64_h!(c12_hi64_bit_length_3, 3);
hi64_h!(c12_hi64_bit_length_4, 4);

/// empty vector: hi64 = (0,false), bit_length = 0
#[kani::proof]
fn c12_hi64_empty() {
    let x = VecType::new();
    assert!(hi64(&x) == (0, false) && bit_length(&x) == 0 && leading_zeros(&x) == 0);
    assert!(is_normalized(&x));
}

// ---------------------------------------------------------------- pow

// small_mul / large_mul replaced by ghost recorders: each call contributes the base-5
// logarithm of its factor; any factor that is not an exact power of five from the tables
// poisons the ghost.  (Their own contracts: c12_small_mul / c12_large_mul; the factor values:
// C14.)
static mut POW_LOG5: u32 = 0;
static mut POW_BAD: bool = false;
static mut POW_CALLS: u32 = 0;

fn log5_of(v: u64) -> Option<u32> {
    let mut p: u64 = 1;
    let mut k: u32 = 0;
    while k <= 27 {
        if p == v {
            return Some(k);
        }
        if k < 27 {
            p *= 5;
        }
        k += 1;
    }
    None
}

fn ghost_small_mul(_x: &mut VecType, y: Limb) -> Option<()> {
    unsafe {
        POW_CALLS += 1;
        match log5_of(y) {
            Some(k) => POW_LOG5 += k,
            None => POW_BAD = true,
        }
    }
    Some(())
}

#[cfg(not(feature = "compact"))]
fn ghost_large_mul(_x: &mut VecType, y: &[Limb]) -> Option<()> {
    unsafe {
        POW_CALLS += 1;
        // only the 5^135 constant is a legal large factor
        if y.len() == LARGE_POW5.len() && y.as_ptr() == LARGE_POW5.as_ptr() || y == &LARGE_POW5[..] {
            POW_LOG5 += 135;
        } else {
            POW_BAD = true;
        }
    }
    Some(())
}

/// pow(x, exp) for EVERY exp <= 1200: the factors applied multiply to exactly 5^exp.
#[cfg(not(feature = "compact"))]
#[kani::proof]
#[kani::unwind(46)]
#[kani::stub(small_mul, ghost_small_mul)]
#[kani::stub(large_mul, ghost_large_mul)]
fn c12_pow_factors() {
    let mut x = VecType::from_u64(1);
    let exp: u32 = kani::any();
    kani::assume(exp <= 1200);
    let r = pow(&mut x, exp);
    assert!(r.is_some());
    unsafe {
        assert!(!POW_BAD, "C12 pow uses only exact powers of five as factors");
        assert!(POW_LOG5 == exp, "C12 pow: exponents of the applied factors sum to exp");
    }
    kani::cover!(exp == 1200);
    kani::cover!(exp >= 135 && exp % 135 >= 27 && exp % 27 != 0);
}

#[cfg(feature = "compact")]
#[kani::proof]
#[kani::unwind(46)]
#[kani::stub(small_mul, ghost_small_mul)]
fn c12_pow_factors() {
    let mut x = VecType::from_u64(1);
    let exp: u32 = kani::any();
    kani::assume(exp <= 1200);
    let r = pow(&mut x, exp);
    assert!(r.is_some());
    unsafe {
        assert!(!POW_BAD, "C12 pow uses only exact powers of five as factors");
        assert!(POW_LOG5 == exp, "C12 pow: exponents of the applied factors sum to exp");
    }
    kani::cover!(exp == 1200);
}

// Bigint::pow dispatch: 5 -> pow only, 2 -> shl only, 10 -> both, same exponent.
static mut D_POW: Option<u32> = None;
static mut D_SHL: Option<usize> = None;
fn ghost_pow(_x: &mut VecType, exp: u32) -> Option<()> {
    unsafe {
        assert!(D_POW.is_none());
        D_POW = Some(exp);
    }
    Some(())
}
fn ghost_shl(_x: &mut VecType, n: usize) -> Option<()> {
    unsafe {
        assert!(D_SHL.is_none());
        D_SHL = Some(n);
    }
    Some(())
}

#[kani::proof]
#[kani::stub(pow, ghost_pow)]
#[kani::stub(shl, ghost_shl)]
fn c12_bigint_pow_dispatch() {
    let mut b = Bigint::from_u64(kani::any());
    let exp: u32 = kani::any();
    let base: u32 = if kani::any() { 2 } else if kani::any() { 5 } else { 10 };
    let r = b.pow(base, exp);
    assert!(r.is_some());
    unsafe {
        assert!(D_POW == if base == 2 { None } else { Some(exp) }, "C12 Bigint::pow multiplies by 5^exp exactly when 5 | base");
        assert!(D_SHL == if base == 5 { None } else { Some(exp as usize) }, "C12 Bigint::pow shifts by exp exactly when 2 | base");
    }
}
