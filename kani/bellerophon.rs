// Harness module appended to src/bellerophon.rs (compact configurations).
// Contracts for: bellerophon, error_is_accurate, normalize, mul, BellerophonPowers::get_*  (C11)
use crate::verif_spec::*;

macro_rules! bell_shape {
    ($name:ident, $t:ty, $fmt:expr) => {
        /// bellerophon::<F>(num) for ALL Number values: no panic / overflow / OOB / failed
        /// debug_assert; definite => fields in range, finite or +inf, never NaN; declined =>
        /// negative exponent, normalised significand; zero significand or hopeless exponents
        /// short-circuit to +0.0 / +inf.
        #[kani::proof]
        fn $name() {
            let num = Number { exponent: kani::any(), mantissa: kani::any(), many_digits: kani::any() };
            let fp = bellerophon::<$t>(&num);
            if fp.exp >= 0 {
                assert!((fp.exp as u64) <= $fmt.inf_e, "C11 definite exponent field in range");
                assert!(fp.mant <= (1u64 << $fmt.ms), "C11 definite fraction field in range");
                assert!(fp.mant < (1u64 << $fmt.ms) || fp.exp == 1, "C11 hidden bit only on a promoted subnormal");
                let bits = fp.mant | ((fp.exp as u64) << $fmt.ms);
                assert!(spec_is_finite_or_inf($fmt, bits), "C11 definite result finite or +inf, never NaN");
                if num.mantissa == 0 || num.exponent <= -0x1000 {
                    assert!(bits == 0, "C07 zero significand / hopeless underflow gives +0.0");
                } else if num.exponent >= 0x1000 {
                    assert!(bits == $fmt.inf_e << $fmt.ms, "C07 hopeless overflow gives +inf");
                }
            } else {
                assert!(fp.mant >> 63 == 1, "C11 declined estimate is normalised");
                let unb = fp.exp as i64 - <$t as Float>::INVALID_FP as i64;
                assert!(unb >= -64 && unb <= 2200, "C11 declined estimate exponent un-biases into the slow path's range");
                assert!(num.mantissa != 0 && num.exponent > -0x1000 && num.exponent < 0x1000);
            }
            kani::cover!(fp.exp < 0, "declined");
            kani::cover!(fp.exp == 0 && fp.mant != 0, "subnormal");
            kani::cover!(fp.exp as u64 == $fmt.inf_e && num.exponent < 0x1000, "overflow after scaling");
        }
    };
}
bell_shape!(c11_bell_shape_f64, f64, F64);
bell_shape!(c11_bell_shape_f32, f32, F32);

macro_rules! bell_band {
    ($name:ident, $t:ty, $fmt:expr, $max_exp:expr) => {
        /// Band soundness of error_is_accurate: for every normalised 64-bit significand, every
        /// biased exponent the algorithm can reach, EVERY accumulated error bound `errors` (all u32):
        /// if the estimate is accepted, then EVERY significand within (mant - errors, mant + errors)
        /// rounds to the same float as mant - so whatever the true value inside the tracked
        /// band, the definite answer is its correct rounding; estimates whose band touches a
        /// halfway point are declined.
        #[kani::proof]
        fn $name() {
            let fp = ExtendedFloat { mant: kani::any(), exp: kani::any() };
            kani::assume(fp.mant >> 63 == 1);
            kani::assume(fp.exp >= -63 && fp.exp <= $max_exp);
            let errors: u32 = kani::any();
            let delta: i64 = kani::any();
            kani::assume(delta.unsigned_abs() < errors as u64 || delta == 0);
            let m2 = fp.mant as i128 + delta as i128;
            kani::assume(m2 >= (1i128 << 63) && m2 < (1i128 << 64));
            if error_is_accurate::<$t>(errors, &fp) {
                let mut a = fp;
                round::<$t, _>(&mut a, |f, s| {
                    round_nearest_tie_even(f, s, |is_odd, is_halfway, is_above| is_above || (is_odd && is_halfway));
                });
                let mut b = ExtendedFloat { mant: m2 as u64, exp: fp.exp };
                round::<$t, _>(&mut b, |f, s| {
                    round_nearest_tie_even(f, s, |is_odd, is_halfway, is_above| is_above || (is_odd && is_halfway));
                });
                let abits = a.mant | ((a.exp as u64) << $fmt.ms);
                let bbits = b.mant | ((b.exp as u64) << $fmt.ms);
                assert!(abits == bbits, "C11 accepted estimate: every value in the error band rounds identically");
            }
            kani::cover!(error_is_accurate::<$t>(errors, &fp) && errors > 8 && delta != 0);
            kani::cover!(!error_is_accurate::<$t>(errors, &fp));
            kani::cover!(fp.exp < -40 && error_is_accurate::<$t>(errors, &fp) && errors > 0, "subnormal band");
        }
    };
}
bell_band!(c11_bell_band_f64, f64, F64, 2100);
bell_band!(c11_bell_band_f32, f32, F32, 320);

// error_is_accurate replaced by a ghost recorder (always "not accurate"), mul by an arbitrary
// function with the range fact of a product of two normalised words.
static mut EA_CALLS: u32 = 0;
static mut EA_ERRORS: u32 = 0;
static mut EA_MANT: u64 = 0;
fn ghost_error_is_accurate<F: Float>(errors: u32, fp: &ExtendedFloat) -> bool {
    unsafe {
        EA_CALLS += 1;
        EA_ERRORS = errors;
        EA_MANT = fp.mant;
    }
    false
}
fn ghost_mul(x: &ExtendedFloat, y: &ExtendedFloat) -> ExtendedFloat {
    let m: u64 = kani::any();
    kani::assume(m >> 62 != 0);
    ExtendedFloat { mant: m, exp: x.exp + y.exp + 64 }
}

macro_rules! bell_truncation {
    ($name:ident, $t:ty) => {
        /// Truncation is accounted for (necessary bound, independent of how the code computes
        /// it): when the significand was truncated (the real digits lie in [w, w+1)), ONE UNIT of
        /// w is mant / w > 2^(lz(w) - 1) ULPs of the final 64-bit mantissa, so the error bound
        /// handed to error_is_accurate (1/8-ULP units) must be at least 2^(lz(w) + 2) - or be
        /// saturated (>= 2^28 - 1, always rejected).  ALL w != 0, all exponents; mul arbitrary.
        #[kani::proof]
        #[kani::stub(error_is_accurate, ghost_error_is_accurate)]
        #[kani::stub(mul, ghost_mul)]
        fn $name() {
            let num = Number { exponent: kani::any(), mantissa: kani::any(), many_digits: true };
            kani::assume(num.mantissa != 0);
            let fp = bellerophon::<$t>(&num);
            unsafe {
                if EA_CALLS == 1 {
                    let lz = num.mantissa.leading_zeros();
                    assert!(
                        EA_ERRORS as u64 >= 1u64 << (lz + 2).min(40) || EA_ERRORS >= 0x0fff_ffff,
                        "C11 Bellerophon error budget covers one unit of a truncated significand"
                    );
                    assert!(fp.exp < 0, "ghost: declined");
                }
                kani::cover!(EA_CALLS == 1 && num.mantissa < (1u64 << 60) && num.mantissa > (1u64 << 59), "19-digit significand just below 2^60");
                kani::cover!(EA_CALLS == 1 && EA_ERRORS >= 0x0fff_ffff, "saturated");
            }
        }
    };
}
bell_truncation!(c11_bell_truncation_f64, f64);
bell_truncation!(c11_bell_truncation_f32, f32);

//@if-fn truncation_error
/// truncation_error(w) == min(8 * floor((2^64-1) / w), 2^28 - 1) for every w != 0
/// (division-free statement: r = 8u with u*w <= 2^64-1 < (u+1)*w).
#[kani::proof]
fn c11_bell_truncation_error_fn() {
    let w: u64 = kani::any();
    kani::assume(w != 0);
    let r = truncation_error(w);
    if r < 0x0fff_ffff {
        let u = (r >> 3) as u128;
        assert!(r & 7 == 0, "C11 truncation_error in whole ULPs");
        assert!(u * (w as u128) <= u64::MAX as u128 && (u + 1) * (w as u128) > u64::MAX as u128, "C11 truncation_error == 8 * floor((2^64-1)/w)");
    } else {
        assert!(r == 0x0fff_ffff && (w as u128) * ((0x0fff_ffffu128 >> 3) + 1) <= (u64::MAX as u128) + (w as u128), "C11 truncation_error saturates only when the true value is larger");
    }
    kani::cover!(r == 0x0fff_ffff);
    kani::cover!(r == 8);
}

static mut TE_VAL: u32 = 0;
fn ghost_truncation_error(_mantissa: u64) -> u32 {
    unsafe { TE_VAL }
}

/// The truncation error, once added, is never lost: the bound handed to error_is_accurate
/// is >= truncation_error(w) (only additions and a left shift follow).
#[kani::proof]
#[kani::stub(error_is_accurate, ghost_error_is_accurate)]
#[kani::stub(mul, ghost_mul)]
#[kani::stub(truncation_error, ghost_truncation_error)]
fn c11_bell_truncation_propagates() {
    let num = Number { exponent: kani::any(), mantissa: kani::any(), many_digits: true };
    kani::assume(num.mantissa != 0);
    let t: u32 = kani::any();
    kani::assume(t <= 0x0fff_ffff);
    unsafe {
        TE_VAL = t;
    }
    let _ = bellerophon::<f64>(&num);
    unsafe {
        if EA_CALLS == 1 {
            assert!(EA_ERRORS >= t, "C11 truncation error reaches error_is_accurate undiminished");
        }
        kani::cover!(EA_CALLS == 1 && t == 0x0fff_ffff);
    }
}
//@endif

// ---------------------------------------------------------------- structure of bellerophon()
static mut M_CALLS: usize = 0;
static mut M_X: [(u64, i32); 2] = [(0, 0); 2];
static mut M_Y: [(u64, i32); 2] = [(0, 0); 2];
static mut M_R: [(u64, i32); 2] = [(0, 0); 2];
fn rec_mul(x: &ExtendedFloat, y: &ExtendedFloat) -> ExtendedFloat {
    let m: u64 = kani::any();
    kani::assume(m >> 62 != 0);
    let r = ExtendedFloat { mant: m, exp: x.exp + y.exp + 64 };
    unsafe {
        assert!(M_CALLS < 2, "at most two extended multiplications");
        M_X[M_CALLS] = (x.mant, x.exp);
        M_Y[M_CALLS] = (y.mant, y.exp);
        M_R[M_CALLS] = (r.mant, r.exp);
        M_CALLS += 1;
    }
    r
}
static mut S_ACC: bool = false;
static mut S_EA_CALLS: u32 = 0;
static mut S_EA_FP: (u64, i32) = (0, 0);
fn rec_error_is_accurate<F: Float>(_errors: u32, fp: &ExtendedFloat) -> bool {
    unsafe {
        S_EA_CALLS += 1;
        S_EA_FP = (fp.mant, fp.exp);
        S_ACC
    }
}

macro_rules! bell_no_early_out {
    ($name:ident, $t:ty, $qlo:expr) => {
        /// No early zero / infinity where the value can be finite and non-zero: for ALL w != 0
        /// and every decimal exponent q in [$qlo, 309] (w * 10^q >= 10^$qlo is far above the
        /// smallest subnormal; 10^309 needs the estimate to become infinity through rounding)
        /// the estimate is computed and put to error_is_accurate exactly once.
        #[kani::proof]
        #[kani::stub(mul, ghost_mul)]
        #[kani::stub(error_is_accurate, ghost_error_is_accurate)]
        fn $name() {
            let num = Number { exponent: kani::any(), mantissa: kani::any(), many_digits: kani::any() };
            kani::assume(num.mantissa != 0 && num.exponent >= $qlo && num.exponent <= 309);
            let _ = bellerophon::<$t>(&num);
            assert!(unsafe { EA_CALLS } == 1, "C11/C07 Bellerophon consults its estimate for every exponent that can give a finite non-zero value");
        }
    };
}
bell_no_early_out!(c11_bell_no_early_out_f64, f64, -280);
bell_no_early_out!(c11_bell_no_early_out_f32, f32, -30);

static mut AR_ACC: bool = false;
static mut AR_CALLS: u32 = 0;
static mut AR_FP: (u64, i32) = (0, 0);
fn ar_error_is_accurate<F: Float>(_errors: u32, fp: &ExtendedFloat) -> bool {
    unsafe {
        AR_CALLS += 1;
        AR_FP = (fp.mant, fp.exp);
        AR_ACC
    }
}

macro_rules! bell_accept {
    ($name:ident, $t:ty, $fmt:expr) => {
        /// What bellerophon does with its estimate, for ALL Numbers (mul arbitrary,
        /// error_is_accurate a recorder with a symbolic verdict): the estimate handed over is
        /// normalised with biased exponent >= -64; rejected => exactly that estimate, biased
        /// invalid, un-rounded; accepted => +0.0 when it lies a full 64 bits below the smallest
        /// subnormal (exponent -64: value < 2^-bias), otherwise its nearest-even rounding.
        #[kani::proof]
        #[kani::stub(mul, ghost_mul)]
        #[kani::stub(error_is_accurate, ar_error_is_accurate)]
        fn $name() {
            let num = Number { exponent: kani::any(), mantissa: kani::any(), many_digits: kani::any() };
            let acc: bool = kani::any();
            unsafe {
                AR_ACC = acc;
            }
            let fp = bellerophon::<$t>(&num);
            unsafe {
                if AR_CALLS == 1 {
                    let est = AR_FP;
                    assert!(est.0 >> 63 == 1 && est.1 >= -64, "C11 estimate normalised, at most 64 bits below the subnormals");
                    if !acc {
                        assert!(fp.mant == est.0 && fp.exp == est.1 + <$t as Float>::INVALID_FP, "C11 rejected estimate returned un-rounded, biased invalid");
                    } else if est.1 == -64 {
                        assert!(fp.mant == 0 && fp.exp == 0, "C07 a full 64 bits below the smallest subnormal: +0.0");
                    } else {
                        let bits = fp.mant | ((fp.exp as u64) << $fmt.ms);
                        assert!(fp.exp >= 0 && spec_is_rne($fmt, est.0, est.1, bits), "C11 accepted estimate: packed result is its nearest-even rounding");
                    }
                } else {
                    assert!(AR_CALLS == 0 && fp.exp >= 0 && fp.mant == 0, "C11 without consulting the estimate only +0.0 / +inf are returned");
                }
                kani::cover!(AR_CALLS == 1 && acc && AR_FP.1 == -64);
                kani::cover!(AR_CALLS == 1 && acc && AR_FP.1 == -63);
                kani::cover!(AR_CALLS == 1 && !acc);
            }
        }
    };
}
bell_accept!(c11_bell_accept_f64, f64, F64);
bell_accept!(c11_bell_accept_f32, f32, F32);

/// normalize: shifts out exactly the leading zeros, adjusts the exponent, reports the shift.
#[kani::proof]
fn c11_bell_normalize() {
    let mut fp = ExtendedFloat { mant: kani::any(), exp: kani::any() };
    kani::assume(fp.exp >= -100000 && fp.exp <= 100000);
    let pre = fp;
    let s = normalize(&mut fp);
    if pre.mant == 0 {
        assert!(s == 0 && fp == pre, "C11 normalize leaves zero alone");
    } else {
        assert!(s == pre.mant.leading_zeros() as i32 && fp.mant == pre.mant << s && fp.exp == pre.exp - s && fp.mant >> 63 == 1, "C11 normalize");
    }
}

/// mul: significand = floor((x*y + 2^63) / 2^64) (round half up of the 128-bit product),
/// exponent = x.exp + y.exp + 64, for EVERY normalised x and y = each power the algorithm
/// multiplies by (the 10 small and 66 large table entries, as constants: a symbolic-by-symbolic
/// 64x64 product against four 32x32 products is beyond the SAT back end).
fn mul_case(y: ExtendedFloat) {
    let x = ExtendedFloat { mant: kani::any(), exp: kani::any() };
    kani::assume(x.mant >> 63 == 1);
    kani::assume(x.exp > -10000 && x.exp < 10000);
    let r = mul(&x, &y);
    let p = (x.mant as u128) * (y.mant as u128) + (1u128 << 63);
    assert!(r.mant == (p >> 64) as u64, "C11 mul is the rounded high half of the product");
    assert!(r.exp == x.exp + y.exp + 64, "C11 mul exponent");
}

macro_rules! mul_large_h {
    ($name:ident, $lo:expr, $hi:expr) => {
        #[kani::proof]
        #[kani::unwind(70)]
        fn $name() {
            let mut j = $lo;
            while j < $hi {
                mul_case(BASE10_POWERS.get_large(j));
                j += 1;
            }
        }
    };
}
mul_large_h!(c11_bell_mul_large_a, 0, 11);
mul_large_h!(c11_bell_mul_large_b, 11, 22);
mul_large_h!(c11_bell_mul_large_c, 22, 33);
mul_large_h!(c11_bell_mul_large_d, 33, 44);
mul_large_h!(c11_bell_mul_large_e, 44, 55);
mul_large_h!(c11_bell_mul_large_f, 55, 66);

#[kani::proof]
#[kani::unwind(12)]
fn c11_bell_mul_small() {
    let mut i = 0;
    while i < 10 {
        mul_case(BASE10_POWERS.get_small(i));
        i += 1;
    }
}

/// get_small / get_large: table index in range, exponent = floor(log2 10^e) - 63, i.e. the
/// entry denotes 10^e = mant * 2^exp with mant normalised (table values: C14).
#[kani::proof]
fn c11_bell_powers() {
    let i: usize = kani::any();
    kani::assume(i < 10);
    let s = BASE10_POWERS.get_small(i);
    assert!(s.exp == spec_log2_pow10(i as i32) - 63 && s.mant >> 63 == 1, "C11 small power exponent");
    assert!(BASE10_POWERS.get_small_int(i) as u128 == {
        let mut p: u128 = 1;
        let mut k = 0;
        while k < 10 {
            if k < i {
                p *= 10;
            }
            k += 1;
        }
        p
    });
    let j: usize = kani::any();
    kani::assume(j < 66);
    let l = BASE10_POWERS.get_large(j);
    assert!(l.exp == spec_log2_pow10(j as i32 * 10 - 350) - 63 && l.mant >> 63 == 1, "C11 large power exponent");
    assert!(BASE10_POWERS.large.len() == 66 && BASE10_POWERS.small.len() == 10 && BASE10_POWERS.small_int.len() == 10);
    assert!(BASE10_POWERS.step == 10 && BASE10_POWERS.bias == 350);
}
