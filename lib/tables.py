"""C14: extract every power-table literal from /repo/src/table_*.rs (working tree) and generate a
Verus file in which each entry is compared with its mathematical definition by
`assert(..) by (compute_only)`.

What is taken from /repo: literal data only (numbers inside the named array initialisers and
the scalar constants).  Count of entries found must equal the declared array length.
Python computes *witnesses* (bit lengths, untruncated quotients) that are emitted as literals;
Verus checks every relation, so a wrong witness can only make a proof fail, never succeed.
"""
import os
import re

from verif import Undecided, REPO


def _strip_comments(t):
    return re.sub(r"//[^\n]*", "", t)


def extract_array(text, name, elem_ty=None):
    """Return (declared_len_expr, body_without_comments) of `name: [T; N] = [ ... ];`."""
    pat = r"\b%s\s*:\s*\[\s*(%s)\s*;\s*([A-Za-z0-9_]+)\s*\]\s*=\s*\[(.*?)\]\s*;" % (
        re.escape(name), elem_ty if elem_ty else r"[^;\]]+")
    ms = list(re.finditer(pat, text, re.S))
    if len(ms) != 1:
        raise Undecided("anchor-lost table %s (%d matches)" % (name, len(ms)))
    m = ms[0]
    return m.group(2), _strip_comments(m.group(3))


def extract_const(text, name):
    ms = re.findall(r"\b%s\s*:\s*[a-z0-9]+\s*=\s*(-?[0-9_xa-fA-F]+)\s*;" % re.escape(name), text)
    if len(ms) != 1:
        raise Undecided("anchor-lost constant %s" % name)
    return int(ms[0].replace("_", ""), 0)


def ints(body):
    return [int(x.replace("_", ""), 0) for x in re.findall(r"(?<![\w.])(0x[0-9a-fA-F_]+|[0-9][0-9_]*)(?![\w.])", body)]


def read(rel):
    p = os.path.join(REPO, rel)
    if not os.path.exists(p):
        raise Undecided("anchor-lost %s" % rel)
    return open(p).read()


def bitlen(n):
    return n.bit_length()


def biglit(n):
    """Verus integer literals are limited to 128 bits: spell a larger witness as a sum of 64-bit limbs."""
    if n < (1 << 127):
        return "%d" % n
    parts = []
    i = 0
    while n:
        parts.append("%d * pw(2, %d)" % (n & ((1 << 64) - 1), 64 * i))
        n >>= 64
        i += 1
    return "(" + " + ".join(parts) + ")"


PRELUDE = """use vstd::prelude::*;
verus! {
// b^e by square-and-multiply (the naive recursion exceeds the interpreter's depth)
pub open spec fn pw(b: nat, e: nat) -> nat
    decreases e
{
    if e == 0 { 1 } else {
        let h = pw(b, e / 2);
        if e % 2 == 0 { h * h } else { h * h * b }
    }
}
"""


def gen_lemire(out):
    """651 x 128-bit significands of 5^q, q in [-342, 308] (definition: etc/lemire_table.py / property C14)."""
    t = read("src/table_lemire.rs")
    smallest = extract_const(t, "SMALLEST_POWER_OF_FIVE")
    largest = extract_const(t, "LARGEST_POWER_OF_FIVE")
    _, body = extract_array(t, "POWER_OF_FIVE_128", r"\(\s*u64\s*,\s*u64\s*\)")
    pairs = re.findall(r"\(\s*(0x[0-9a-fA-F_]+|\d[\d_]*)\s*,\s*(0x[0-9a-fA-F_]+|\d[\d_]*)\s*\)", body)
    n = largest - smallest + 1
    obligations = []
    out.append("proof fn lemire_bounds() { assert(%d == -342 && %d == 308 && %d == 651) by (compute_only); }\n" % (
        smallest, largest, len(pairs)))
    obligations.append(("lemire_bounds", "SMALLEST/LARGEST_POWER_OF_FIVE == -342/308 and 651 entries found"))
    if len(pairs) != n:
        # still generate what we can; the bounds obligation above fails and names the reason
        pass
    for i, (hi_s, lo_s) in enumerate(pairs):
        q = -342 + i  # position decides q (comments are not trusted)
        hi = int(hi_s.replace("_", ""), 0)
        lo = int(lo_s.replace("_", ""), 0)
        c = "(%d * 0x10000000000000000 + %d) as nat" % (hi, lo)
        name = "lemire_5pow_%s%d" % ("m" if q < 0 else "p", abs(q))
        if q >= 0:
            p = 5 ** q
            z = bitlen(p)
            if z <= 128:
                rel = "pw(2, %d) <= p && p < pw(2, %d) && c == p * pw(2, %d)" % (z - 1, z, 128 - z)
            else:
                rel = ("pw(2, %d) <= p && p < pw(2, %d) && c * pw(2, %d) <= p && p < (c + 1) * pw(2, %d)"
                       % (z - 1, z, z - 128, z - 128))
            out.append("proof fn %s() { assert({ let p = pw(5, %d); let c = %s; %d < 0x10000000000000000 && %d < 0x10000000000000000 && %s }) by (compute_only); }\n"
                       % (name, q, c, hi, lo, rel))
        else:
            k = -q
            p = 5 ** k
            z = 0
            while (1 << z) < p:
                z += 1
            # z = smallest z with 2^z >= 5^k
            zrel = "pw(2, %d) < p && p <= pw(2, %d)" % (z - 1, z)
            if q >= -27:
                b = z + 127
                rel = "%s && (c - 1) * p <= pw(2, %d) && pw(2, %d) < c * p" % (zrel, b, b)
            else:
                b = 2 * z + 128
                c0 = (1 << b) // p + 1
                t_ = bitlen(c0) - 128
                # witness c0 (untruncated quotient + 1) is checked, then truncated to 128 bits
                rel = ("%s && (c0 - 1) * p <= pw(2, %d) && pw(2, %d) < c0 * p && c * pw(2, %d) <= c0 && c0 < (c + 1) * pw(2, %d) "
                       "&& pw(2, 127) <= c && c < pw(2, 128)" % (zrel, b, b, t_, t_))
                rel = "{ let c0: nat = %s; %s }" % (biglit(c0), rel)
            out.append("proof fn %s() { assert({ let p = pw(5, %d); let c = %s; %d < 0x10000000000000000 && %d < 0x10000000000000000 && %s }) by (compute_only); }\n"
                       % (name, k, c, hi, lo, rel))
        obligations.append((name, "POWER_OF_FIVE_128[%d] = (0x%x, 0x%x) is the specified 128-bit significand of 5^%d" % (i, hi, lo, q)))
    return obligations


def gen_small(out):
    t = read("src/table_small.rs")
    obligations = []
    for name, base, n in (("SMALL_INT_POW5", 5, 28), ("SMALL_INT_POW10", 10, 20)):
        _, body = extract_array(t, name, "u64")
        vals = ints(body)
        out.append("proof fn small_len_%s() { assert(%d == %d) by (compute_only); }\n" % (name.lower(), len(vals), n))
        obligations.append(("small_len_%s" % name.lower(), "%s has %d entries" % (name, n)))
        for i, v in enumerate(vals):
            fn = "small_%s_%d" % (name.lower(), i)
            out.append("proof fn %s() { assert(%d == pw(%d, %d) && %d < 0x10000000000000000) by (compute_only); }\n" % (fn, v, base, i, v))
            obligations.append((fn, "%s[%d] = %d == %d^%d" % (name, i, v, base, i)))
    # LARGE_POW5 (64-bit limbs): exactly 5^135, little endian
    ms = list(re.finditer(r"LARGE_POW5\s*:\s*\[\s*u64\s*;\s*(\d+)\s*\]\s*=\s*\[(.*?)\]\s*;", t, re.S))
    if len(ms) != 1:
        raise Undecided("anchor-lost table LARGE_POW5 (u64 limbs)")
    limbs = ints(_strip_comments(ms[0].group(2)))
    step = extract_const(t, "LARGE_POW5_STEP")
    s = " + ".join("%d * pw(2, %d)" % (l, 64 * i) for i, l in enumerate(limbs))
    lim = " && ".join("%d < 0x10000000000000000" % l for l in limbs)
    out.append("proof fn small_large_pow5() { assert(%d == 135 && %d == %s && (%s) == pw(5, 135) && %s && %d != 0) by (compute_only); }\n"
               % (step, int(ms[0].group(1)), len(limbs), s, lim, limbs[-1] if limbs else 0))
    obligations.append(("small_large_pow5", "LARGE_POW5 (little-endian u64 limbs) == 5^135, LARGE_POW5_STEP == 135, top limb non-zero"))
    # float tables: decimal literals up to 1e22 / 1e10, padding 0.
    for name, cnt, ln in (("SMALL_F32_POW10", 11, 16), ("SMALL_F64_POW10", 23, 32)):
        ms = list(re.finditer(r"\b%s\s*:\s*\[\s*f(?:32|64)\s*;\s*(\d+)\s*\]\s*=\s*\[(.*?)\]\s*;" % name, t, re.S))
        if len(ms) != 1:
            raise Undecided("anchor-lost table %s" % name)
        toks = [x.strip() for x in _strip_comments(ms[0].group(2)).split(",") if x.strip()]
        ok = int(ms[0].group(1)) == ln and len(toks) == ln
        for i, tok in enumerate(toks):
            if i < cnt:
                ok = ok and tok == "1e%d" % i
            else:
                ok = ok and tok in ("0.", "0.0")
        # the literal text is checked here; that the compiled float equals 10^i exactly is the
        # Kani obligation c14_float_pow10_* (decodes the bits)
        out.append("proof fn small_text_%s() { assert(%s) by (compute_only); }\n" % (name.lower(), "true" if ok else "false"))
        obligations.append(("small_text_%s" % name.lower(), "%s source text is [1e0 .. 1e%d, 0. padding] with %d entries" % (name, cnt - 1, ln)))
    return obligations


def gen_log2(out):
    """(217706*e)>>16 == floor(log2(10^e)) for every decimal exponent either moderate path can use."""
    obligations = []
    for e in range(-350, 311):
        x = (217706 * e) >> 16
        fn = "log2_10_%s%d" % ("m" if e < 0 else "p", abs(e))
        if e >= 0:
            rel = "pw(2, %d) <= pw(10, %d) && pw(10, %d) < pw(2, %d)" % (x, e, e, x + 1)
        else:
            # 2^x <= 10^e < 2^(x+1), x < 0  <=>  2^(-x-1) < 10^-e <= 2^-x
            rel = "pw(2, %d) < pw(10, %d) && pw(10, %d) <= pw(2, %d)" % (-x - 1, -e, -e, -x)
        # also pin the arithmetic of the formula itself (floor shift of a possibly negative product)
        prod = 217706 * e
        out.append("proof fn %s() { assert(%s && %d * 65536 <= %d && %d < (%d + 1) * 65536) by (compute_only); }\n"
                   % (fn, rel, x, prod, prod, x))
        obligations.append((fn, "floor(217706*%d / 2^16) = %d = floor(log2(10^%d))" % (e, x, e)))
    return obligations


def gen_bellerophon(out):
    t = read("src/table_bellerophon.rs")
    obligations = []
    step = extract_const(t, "BASE10_STEP")
    bias = extract_const(t, "BASE10_BIAS")
    mult = extract_const(t, "BASE10_LOG2_MULT")
    shift = extract_const(t, "BASE10_LOG2_SHIFT")
    _, sb = extract_array(t, "BASE10_SMALL_MANTISSA", "u64")
    _, lb = extract_array(t, "BASE10_LARGE_MANTISSA", "u64")
    _, ib = extract_array(t, "BASE10_SMALL_INT_POWERS", "u64")
    small, large, sint = ints(sb), ints(lb), ints(ib)
    out.append("proof fn bell_params() { assert(%d == 10 && %d == 350 && %d == 217706 && %d == 16 && %d == 10 && %d == 66 && %d == 10) by (compute_only); }\n"
               % (step, bias, mult, shift, len(small), len(large), len(sint)))
    obligations.append(("bell_params", "BASE10_STEP/BIAS/LOG2_MULT/LOG2_SHIFT == 10/350/217706/16; 10 + 66 + 10 entries"))
    for i, v in enumerate(sint):
        fn = "bell_small_int_%d" % i
        out.append("proof fn %s() { assert(%d == pw(10, %d)) by (compute_only); }\n" % (fn, v, i))
        obligations.append((fn, "BASE10_SMALL_INT_POWERS[%d] == 10^%d" % (i, i)))
    for i, v in enumerate(small):
        p = 10 ** i
        z = bitlen(p)
        fn = "bell_small_%d" % i
        out.append("proof fn %s() { assert({ let p = pw(10, %d); pw(2, %d) <= p && p < pw(2, %d) && %d == p * pw(2, %d) && %d < pw(2, 64) }) by (compute_only); }\n"
                   % (fn, i, z - 1, z, v, 64 - z, v))
        obligations.append((fn, "BASE10_SMALL_MANTISSA[%d] == 10^%d normalised to 64 bits (exact)" % (i, i)))
    for i, v in enumerate(large):
        e = i * 10 - 350
        fn = "bell_large_%s%d" % ("m" if e < 0 else "p", abs(e))
        if e >= 0:
            p = 10 ** e
            z = bitlen(p)
            if z <= 64:
                rel = "pw(2, %d) <= p && p < pw(2, %d) && c == p * pw(2, %d)" % (z - 1, z, 64 - z)
            else:
                rel = "pw(2, %d) <= p && p < pw(2, %d) && c * pw(2, %d) <= p && p < (c + 1) * pw(2, %d)" % (z - 1, z, z - 64, z - 64)
            out.append("proof fn %s() { assert({ let p = pw(10, %d); let c: nat = %d; c < pw(2, 64) && %s }) by (compute_only); }\n" % (fn, e, v, rel))
        else:
            k = -e
            p = 10 ** k
            # c = floor(10^e * 2^s) normalised: c * p <= 2^s < (c+1) * p with 2^63 <= c < 2^64
            s = 63 + bitlen(p)
            if not ((1 << 63) <= (1 << s) // p < (1 << 64)):
                s -= 1
            rel = "c * p <= pw(2, %d) && pw(2, %d) < (c + 1) * p && pw(2, 63) <= c && c < pw(2, 64)" % (s, s)
            out.append("proof fn %s() { assert({ let p = pw(10, %d); let c: nat = %d; %s }) by (compute_only); }\n" % (fn, k, v, rel))
        obligations.append((fn, "BASE10_LARGE_MANTISSA[%d] = %d is the truncated normalised 64-bit significand of 10^%d" % (i, v, e)))
    return obligations


def gen_thresholds(out):
    """Arithmetic facts the range-end and capacity arguments rest on (no data from /repo:
    pure number theory, decided by computation)."""
    obs = []

    def add(name, expr, text):
        out.append("proof fn %s() { assert(%s) by (compute_only); }\n" % (name, expr))
        obs.append((name, text))
    # early-outs of the moderate stages
    add("thr_f64_underflow", "(pw(2, 64) - 1) * pw(2, 1075) < pw(10, 343)", "(2^64-1) * 10^-343 < 2^-1075: every significand with q < -342 is below half the smallest f64 subnormal")
    add("thr_f64_no_early_underflow", "pw(10, 342) < (pw(2, 64) - 1) * pw(2, 1075)", "q = -342 can still be non-zero (the f64 limit is tight)")
    add("thr_f64_overflow", "pw(10, 309) > pw(2, 1024)", "10^309 > 2^1024: every non-zero significand with q > 308 overflows f64")
    add("thr_f64_no_early_overflow", "pw(10, 308) < pw(2, 1024) - pw(2, 970)", "1 * 10^308 is finite (the f64 limit is tight)")
    add("thr_f32_underflow", "(pw(2, 64) - 1) * pw(2, 150) < pw(10, 66)", "(2^64-1) * 10^-66 < 2^-150: q < -65 underflows f32")
    add("thr_f32_underflow_65", "(pw(2, 64) - 1) * pw(2, 150) < pw(10, 65)", "(2^64-1) * 10^-65 < 2^-150: even q = -65 underflows f32 (the f32 limit -65 is not tight; -64 is)")
    add("thr_f32_no_early_underflow", "pw(10, 64) < (pw(2, 64) - 1) * pw(2, 150)", "q = -64 can still be non-zero in f32")
    add("thr_f32_overflow", "pw(10, 39) > pw(2, 128)", "10^39 > 2^128: q > 38 overflows f32")
    add("thr_bell_underflow", "(pw(2, 64) - 1) * pw(2, 1075) < pw(10, 351)", "Bellerophon: exponent + 350 < 0 underflows both formats")
    add("thr_bell_overflow", "pw(10, 310) > pw(2, 1024)", "Bellerophon: large index >= 66 (q >= 310) overflows both formats")
    add("thr_bell_no_early_out_f64", "pw(10, 280) * 1 < pw(2, 1074) && pw(2, 1024) - pw(2, 970) > pw(10, 308)", "10^-280 > 2^-1074: for q >= -280 every w >= 1 is at least the smallest f64 subnormal; 10^308 finite")
    add("thr_bell_no_early_out_f32", "pw(10, 30) < pw(2, 149)", "10^-30 > 2^-149: for q >= -30 every w >= 1 is at least the smallest f32 subnormal")
    # tie window
    add("thr_tie_f64", "pw(5, 23) < pw(2, 54) && pw(5, 24) > pw(2, 54) && pw(2, 53) * pw(5, 4) < pw(2, 64) && pw(2, 53) * pw(5, 5) > pw(2, 64)", "f64 tie window [-4, 23]: 5^23 < 2^54 < 5^24 ; 2^53 * 5^4 < 2^64 < 2^53 * 5^5")
    add("thr_tie_f32", "pw(5, 10) < pw(2, 25) && pw(5, 11) > pw(2, 25) && pw(2, 24) * pw(5, 17) < pw(2, 64) && pw(2, 24) * pw(5, 18) > pw(2, 64)", "f32 tie window [-17, 10]: 5^10 < 2^25 < 5^11 ; 2^24 * 5^17 < 2^64 < 2^24 * 5^18")
    add("thr_exact_q27", "pw(5, 27) < pw(2, 64) && pw(5, 28) > pw(2, 64)", "5^q < 2^64 exactly for q <= 27 (products exact)")
    add("thr_fast_path_f64", "pw(10, 22) < pw(2, 53) * pw(2, 22) && pw(5, 22) < pw(2, 53) && pw(5, 23) > pw(2, 53) && pw(10, 15) < pw(2, 53) && pw(10, 16) > pw(2, 53)", "f64 fast path: 5^22 < 2^53 < 5^23 (10^22 exact in f64); 10^15 < 2^53 < 10^16 (disguised shift 37 - 22)")
    add("thr_fast_path_f32", "pw(5, 10) < pw(2, 24) && pw(5, 11) > pw(2, 24) && pw(10, 7) < pw(2, 24) && pw(10, 8) > pw(2, 24)", "f32 fast path: 5^10 < 2^24 < 5^11; 10^7 < 2^24 < 10^8 (disguised shift 17 - 10)")
    # longest exact halfway expansions: MAX_DIGITS - 1
    add("thr_max_digits_f64", "pw(10, 767) <= (pw(2, 54) - 1) * pw(5, 1075) && (pw(2, 54) - 1) * pw(5, 1075) < pw(10, 768)", "the longest exact f64 halfway expansion (2^54-1) * 2^-1075 has 768 significant digits = MAX_DIGITS - 1")
    add("thr_max_digits_f32", "pw(10, 112) <= (pw(2, 25) - 1) * pw(5, 150) && (pw(2, 25) - 1) * pw(5, 150) < pw(10, 113)", "the longest exact f32 halfway expansion (2^25-1) * 2^-150 has 113 significant digits = MAX_DIGITS - 1")
    # capacity (L-CAP): 62 limbs = 3968 bits
    add("thr_cap_positive", "pw(2, 64) * pw(10, 308) * 10 < pw(2, 3968)", "positive scale: digits * 10^e < 2^64 * 10^309 fits 62 limbs")
    add("thr_cap_digits", "pw(10, 770) < pw(2, 2558) && pw(2, 2558) * pw(2, 1100) < pw(2, 3968)", "770 digits < 2^2558; shifted by up to 1100 bits still < 2^3968")
    add("thr_cap_theor", "pw(2, 54) * pw(5, 1131) < pw(2, 2681) && pw(2, 2681) * pw(2, 1100) < pw(2, 3968)", "(2m+1) * 5^1131 < 2^2681; scaled by up to 2^1100 still < 2^3968")
    add("thr_capacity_limbs", "62int * 64 == 3968 && 4000int / 64 == 62", "BIGINT_LIMBS = 4000 / 64 = 62 limbs = 3968 bits")
    return obs


def gen_induction(out):
    """Unbounded induction over limb sequences: the per-limb contract of scalar_mul / scalar_add (proved by
    Kani for all u64 operands) composes, for EVERY length, to the natural-number contract of the vector
    operation.  Pure mathematics over the contracts; no data from /repo."""
    text = open(os.path.join(os.path.dirname(os.path.dirname(os.path.abspath(__file__))), "verus", "limb_chain_induction.rs")).read()
    out.append(text)
    names = re.findall(r"proof fn (\w+)", text)
    desc = {
        "lemma_small_mul_chain": "for every n: out_i + 2^64 c_{i+1} == x_i y + c_i for all i < n  ==>  val(out) + 2^(64n) c_n == val(x) y + c_0",
        "lemma_val_push": "val(s.push(t)) == val(s) + 2^(64 |s|) t",
        "lemma_small_mul_total": "loop result with the final carry pushed (or omitted when zero) is exactly val(x) * y + carry_in, any length",
        "lemma_val_trailing_zero": "a trailing zero limb does not change the value (normalize)",
        "lemma_val_shl_limbs": "k zero limbs in front multiply the value by 2^(64k) (shl_limbs), any k and length",
        "lemma_distribute": "distributivity helper",
    }
    return [(n, desc.get(n, n)) for n in names]


def generate(path, which=("lemire", "small", "bellerophon", "log2")):
    out = [PRELUDE]
    obs = []
    if "lemire" in which:
        obs += gen_lemire(out)
    if "small" in which:
        obs += gen_small(out)
    if "bellerophon" in which:
        obs += gen_bellerophon(out)
    if "log2" in which:
        obs += gen_log2(out)
    if "thresholds" in which:
        obs += gen_thresholds(out)
    if "induction" in which:
        obs += gen_induction(out)
    out.append("} // verus!\nfn main() {}\n")
    with open(path, "w") as f:
        f.write("".join(out))
    return obs


# ------------------------------------------------------------------ expected values (diagnosis / replay only)


def lemire_expected(q):
    if q >= 0:
        p = 5 ** q
        while p < (1 << 127):
            p *= 2
        while p >= (1 << 128):
            p //= 2
        return p
    p = 5 ** -q
    z = 0
    while (1 << z) < p:
        z += 1
    if q >= -27:
        return (1 << (z + 127)) // p + 1
    c = (1 << (2 * z + 128)) // p + 1
    while c >= (1 << 128):
        c //= 2
    return c


def bell_large_expected(e):
    if e >= 0:
        p = 10 ** e
        while p < (1 << 63):
            p *= 2
        while p >= (1 << 64):
            p //= 2
        return p
    p = 10 ** -e
    s = 63 + p.bit_length()
    c = (1 << s) // p
    if c >= (1 << 64):
        c = (1 << (s - 1)) // p
    return c


def _native_table_test(scratch, features, body):
    """Write tests/verif_table_replay.rs into the scratch crate and run it natively."""
    import subprocess
    from verif import ENV, FEATURE_SETS
    os.makedirs(os.path.join(scratch, "tests"), exist_ok=True)
    with open(os.path.join(scratch, "tests", "verif_table_replay.rs"), "w") as f:
        f.write(body)
    cmd = ["cargo", "test", "--offline", "--test", "verif_table_replay"] + FEATURE_SETS[features]
    try:
        p = subprocess.run(cmd, cwd=scratch, env=dict(ENV, RUST_BACKTRACE="0"), stdout=subprocess.PIPE, stderr=subprocess.STDOUT,
                           text=True, timeout=600)
        out = "\n".join(l for l in p.stdout.splitlines() if not l.lstrip().startswith(("warning", "|", "=", "-->")) and l.strip())
        return " ".join(cmd), out[-2500:]
    except Exception as e:  # pragma: no cover
        return " ".join(cmd), "native run failed: %r" % e


def make_runner(which, features="default"):
    def run(o, tier, scratch):
        import tempfile, shutil
        import verif
        d = tempfile.mkdtemp(prefix="verif-verus-")
        try:
            path = os.path.join(d, "tables_%s.rs" % "_".join(which))
            obs = generate(path, which)
            j, err, wall, cmd = verif.run_verus(path, timeout_s=o["timeout"])
            vr = j.get("verification-results", {})
            ent = {"cmd": cmd, "duration_s": round(wall, 2), "solver_s": j.get("times-ms", {}).get("total", 0) / 1000.0,
                   "counts": {"verus_proof_fns": len(obs), "verified": vr.get("verified", 0), "errors": vr.get("errors")},
                   "n_checks": len(obs)}
            if vr.get("success") and vr.get("verified", 0) >= len(obs) and not vr.get("errors"):
                ent["status"] = "ok"
                return ent
            lines = open(path).read().splitlines()
            bad = []
            for m in re.finditer(r"error: (expression simplifies to false|assertion failed|[^\n]*)\n\s*--> [^\n]*?:(\d+):\d+", err):
                ln = int(m.group(2))
                msg = m.group(1)
                fn = re.search(r"proof fn (\w+)", lines[ln - 1]) if 0 < ln <= len(lines) else None
                bad.append((fn.group(1) if fn else "?", msg))
            false_ones = [b for b in bad if "simplifies to false" in b[1] or "assertion failed" in b[1]]
            if not false_ones:
                raise Undecided("verus error that is not a refuted obligation:\n" + err[-2500:])
            desc = dict(obs)
            detail = ["Verus refuted (assert .. by(compute_only) simplifies to false):"]
            checks = []
            for fn, msg in false_ones:
                detail.append("  obligation %s : %s" % (fn, desc.get(fn, "?")))
                m = re.match(r"lemire_5pow_([mp])(\d+)$", fn)
                if m:
                    q = int(m.group(2)) * (-1 if m.group(1) == "m" else 1)
                    e = lemire_expected(q)
                    detail.append("  failing input: table index %d (5^%d); definition gives (0x%016x, 0x%016x)" % (q + 342, q, e >> 64, e & ((1 << 64) - 1)))
                    checks.append("    assert_eq!(minimal_lexical::table::POWER_OF_FIVE_128[%d], (0x%xu64, 0x%xu64), \"5^%d\");" % (q + 342, e >> 64, e & ((1 << 64) - 1), q))
                m = re.match(r"small_small_int_pow(5|10)_(\d+)$", fn)
                if m:
                    b, i = int(m.group(1)), int(m.group(2))
                    detail.append("  failing input: SMALL_INT_POW%d[%d]; definition gives %d" % (b, i, b ** i))
                    checks.append("    assert_eq!(minimal_lexical::table::SMALL_INT_POW%d[%d], %du64);" % (b, i, b ** i))
                if fn == "small_large_pow5":
                    v = 5 ** 135
                    limbs = [(v >> (64 * i)) & ((1 << 64) - 1) for i in range(5)]
                    detail.append("  failing input: LARGE_POW5; definition gives %s" % limbs)
                    checks.append("    assert_eq!(minimal_lexical::table::LARGE_POW5, [%s]);" % ", ".join("%du64" % l for l in limbs))
                m = re.match(r"bell_large_([mp])(\d+)$", fn)
                if m:
                    e10 = int(m.group(2)) * (-1 if m.group(1) == "m" else 1)
                    detail.append("  failing input: BASE10_LARGE_MANTISSA[%d] (10^%d); definition gives %d" % ((e10 + 350) // 10, e10, bell_large_expected(e10)))
                    checks.append("    assert_eq!(minimal_lexical::table::BASE10_POWERS.large[%d], %du64);" % ((e10 + 350) // 10, bell_large_expected(e10)))
                m = re.match(r"bell_small_(\d+)$", fn)
                if m:
                    i = int(m.group(1))
                    v = 10 ** i
                    v <<= 64 - v.bit_length()
                    checks.append("    assert_eq!(minimal_lexical::table::BASE10_POWERS.small[%d], %du64);" % (i, v))
                m = re.match(r"bell_small_int_(\d+)$", fn)
                if m:
                    i = int(m.group(1))
                    checks.append("    assert_eq!(minimal_lexical::table::BASE10_POWERS.small_int[%d], %du64);" % (i, 10 ** i))
            detail.append("")
            detail.append("verus output:")
            detail.append(err[-1800:])
            has_input = False
            if checks and scratch:
                body = "#[test]\nfn verif_table_replay() {\n%s\n}\n" % "\n".join(checks)
                ncmd, nout = _native_table_test(scratch, features, body)
                detail += ["", "native replay against the real constants (tests/verif_table_replay.rs in the scratch copy):", body, "$ " + ncmd, nout]
                has_input = "FAILED" in nout or "panicked" in nout
            detail.append("note: compute_only aborts at the first refuted entry; further entries of the same table may also be wrong")
            ent.update(status="fail", detail="\n".join(detail), has_input=has_input)
            return ent
        finally:
            shutil.rmtree(d, ignore_errors=True)
    return run
