"""Registry of obligations.  One obligation = one named unit the verifier discharges:
a Kani harness (the contract of one real function, for one instantiation), a Verus proof
function group, or a static frame check."""

ALL_CFG = ["default", "compact", "alloc", "compact_alloc", "nostd_compact"]

_OBS = []


def K(id, file, props, contract, functions, strength="proved", tier="quick", timeout=300, features=("default",),
      zflags=(), bound=None, **kw):
    o = dict(id=id, engine="kani", harness="%s::verif_kani::%s" % (file, id), props=list(props), contract=contract,
             functions=list(functions), strength=strength, tier=tier, timeout=timeout, features=list(features),
             zflags=tuple(zflags), bound=bound)
    o.update(kw)
    _OBS.append(o)
    return o


def X(id, engine, run, props, contract, functions, strength="proved", tier="quick", timeout=900, bound=None, **kw):
    o = dict(id=id, engine=engine, run=run, props=list(props), contract=contract, functions=list(functions),
             strength=strength, tier=tier, timeout=timeout, features=["-"], bound=bound)
    o.update(kw)
    _OBS.append(o)
    return o


def all_obligations():
    return list(_OBS)


def for_property(prop, tier):
    return [o for o in _OBS if prop in o["props"] and (tier == "thorough" or o["tier"] == "quick")]


COMMON_TRUSTED = [
    "Kani 0.68 MIR->GOTO translation, CBMC 6.11 symbolic execution and bit-blasting, CaDiCaL",
    "Verus 0.2026.09.13, Z3, rustc (both pinned toolchains)",
    "Kani's models of core/alloc (slice iterators, leading_zeros, checked_*, MaybeUninit, ptr::copy, Vec)",
    "target x86-64: Limb = u64; the 32-bit-limb code is not verified",
]
COMMON_ASSUMPTIONS = [
    "Obligations run on a scratch copy of /repo's working tree with cfg(kani)-only text added; no line of the real code is changed or removed",
]

PROPERTY_META = {}

# --------------------------------------------------------------------------- C18
RND = ["rounding::round", "rounding::round_nearest_tie_even", "rounding::round_down",
       "mask::lower_n_mask", "mask::lower_n_halfway", "mask::nth_bit"]
C18_DEP = ["C18", "C01", "C02", "C07", "C09", "C05"]
for t, rng in (("f64", "[-63,2100]"), ("f32", "[-63,320]")):
    K("c18_round_rne_" + t, "rounding", C18_DEP,
      "round::<%s>(nearest-even cb) : requires mant>=2^63, exp in %s ; ensures packed (exp<<ms|mant) is the IEEE encoding of the float nearest to mant*2^(exp-bias), ties to even, incl. subnormal, promotion, carry, +inf (spec_is_rne, declarative on packed bits)" % (t, rng),
      RND, features=["default", "compact"])
    K("c18_round_rtz_" + t, "rounding", C18_DEP,
      "round::<%s>(round_down) : requires as above ; ensures packed result is the largest float not above the value (spec_is_rtz)" % t,
      RND, features=["default", "compact"])
    K("c18_round_sticky_" + t, "rounding", C18_DEP + ["C06"],
      "round::<%s>(cb of positive_digit_comp with sticky flag) : ensures RNE of every value in (mant, mant+1) when sticky, of mant otherwise" % t,
      RND, features=["default", "compact"])
K("c18_rnte_flags", "rounding", C18_DEP,
  "round_nearest_tie_even : for all mant, shift in 0..=64: cb receives is_odd/is_halfway/is_above exactly describing the truncated bits; mant' = (mant>>shift)+cb, exp' = exp+shift",
  RND[1:], features=["default", "compact"])
K("c18_round_down_shift", "rounding", C18_DEP,
  "round_down : for all mant, shift in 0..=64: mant' = mant>>shift (0 at 64), exp' = exp+shift", ["rounding::round_down"],
  features=["default", "compact"])
for f in ("lower_n_mask", "lower_n_halfway", "nth_bit"):
    K("c18_mask_" + f, "mask", C18_DEP + ["C11"], "mask::%s == its power-of-two definition for every width" % f, ["mask::" + f],
      features=["default", "compact"])

PROPERTY_META["C18"] = dict(
    level="proof",
    trusted_base=["spec_is_rne / spec_is_rtz (/verif/spec/verif_spec.rs) are the statement of 'nearest float, ties to even' / 'largest float not above'"],
    assumptions=[],
)
