"""Registry of obligations.  One obligation = one named unit the verifier discharges:
a Kani harness (the contract of one real function, for one instantiation), a Verus proof
function group, or a static frame check."""

ALL_CFG = ["default", "compact", "alloc", "compact_alloc", "nostd_compact"]

_OBS = []


def K(id, file, props, contract, functions, strength="proved", tier="quick", timeout=300, features=("default",),
      zflags=(), bound=None, **kw):
    hname = id
    if kw.get("id_suffix"):
        id = id + "_" + kw.pop("id_suffix")
    o = dict(id=id, engine="kani", harness="%s::verif_kani::%s" % (file, hname), props=list(props), contract=contract,
             functions=list(functions), strength=strength, tier=tier, timeout=timeout, features=list(features),
             zflags=tuple(zflags), bound=bound)
    o.update(kw)
    _OBS.append(o)
    return o


def X(id, engine, run, props, contract, functions, strength="proved", tier="quick", timeout=900, bound=None, **kw):
    o = dict(id=id, engine=engine, run=run, props=list(props), contract=contract, functions=list(functions),
             strength=strength, tier=tier, timeout=timeout, features=["-"], bound=bound)
    o.update(kw)
    _OBS.append(o)
    return o


def all_obligations():
    return list(_OBS)


def for_property(prop, tier):
    obs = [o for o in _OBS if prop in o["props"] and (tier == "thorough" or o["tier"] == "quick")]
    # C01 is the f64 claim, C02 the f32 claim: instantiation-specific obligations go to their own property
    if prop == "C01":
        # (the digit comparison is generic code whose only affordable quick instance is f32: keep it for C01 too)
        obs = [o for o in obs if ("negative_comp" in o["id"]) or (not o["id"].endswith("_f32") and "_f32_" not in o["id"])]
    if prop == "C02":
        obs = [o for o in obs if not o["id"].endswith("_f64") and "_f64_" not in o["id"]]
    return obs


def features_for(prop, o, tier):
    """Configurations an obligation runs in.  Quick: its first configuration - except for C05
    (configuration independence), whose quick tier runs the OTHER configurations (at most two),
    the first one being covered by the checks of the other properties."""
    if tier == "thorough":
        return list(o["features"])
    if prop == "C05":
        return list(o["features"][1:3]) or list(o["features"][:1])
    return list(o["features"][:1])


COMMON_TRUSTED = [
    "Kani 0.68 MIR->GOTO translation, CBMC 6.11 symbolic execution and bit-blasting, CaDiCaL",
    "Verus 0.2026.09.13, Z3, rustc (both pinned toolchains)",
    "Kani's models of core/alloc (slice iterators, leading_zeros, checked_*, MaybeUninit, ptr::copy, Vec)",
    "target x86-64: Limb = u64; the 32-bit-limb code is not verified",
]
COMMON_ASSUMPTIONS = [
    "Obligations run on a scratch copy of /repo's working tree with cfg(kani)-only text added; no line of the real code is changed or removed",
]

PROPERTY_META = {}
NOT_APPLICABLE = {
    "C03": "quantifies over three decimal renderings of every float; no renderer exists in the repository to put under contract, and the statement is C01/C02 plus a theorem about decimal printing, not about this code (DESIGN.md section 4/C03)",
}

# --------------------------------------------------------------------------- C18
RND = ["rounding::round", "rounding::round_nearest_tie_even", "rounding::round_down",
       "mask::lower_n_mask", "mask::lower_n_halfway", "mask::nth_bit"]
C18_DEP = ["C18", "C01", "C02", "C07", "C09"]
for t, rng in (("f64", "[-63,2100]"), ("f32", "[-63,320]")):
    K("c18_round_rne_" + t, "rounding", C18_DEP,
      "round::<%s>(nearest-even cb) : requires mant>=2^63, exp in %s ; ensures packed (exp<<ms|mant) is the IEEE encoding of the float nearest to mant*2^(exp-bias), ties to even, incl. subnormal, promotion, carry, +inf (spec_is_rne, declarative on packed bits)" % (t, rng),
      RND, features=["default", "compact"])
    K("c18_round_rtz_" + t, "rounding", C18_DEP,
      "round::<%s>(round_down) : requires as above ; ensures packed result is the largest float not above the value (spec_is_rtz)" % t,
      RND, features=["default", "compact"])
    K("c18_round_sticky_" + t, "rounding", C18_DEP + ["C06"],
      "round::<%s>(cb of positive_digit_comp with sticky flag) : ensures RNE of every value in (mant, mant+1) when sticky, of mant otherwise" % t,
      RND, features=["default", "compact"])
K("c18_rnte_flags", "rounding", C18_DEP,
  "round_nearest_tie_even : for all mant, shift in 0..=64: cb receives is_odd/is_halfway/is_above exactly describing the truncated bits; mant' = (mant>>shift)+cb, exp' = exp+shift",
  RND[1:], features=["default", "compact"])
K("c18_round_down_shift", "rounding", C18_DEP,
  "round_down : for all mant, shift in 0..=64: mant' = mant>>shift (0 at 64), exp' = exp+shift", ["rounding::round_down"],
  features=["default", "compact"])
for f in ("lower_n_mask", "lower_n_halfway", "nth_bit"):
    K("c18_mask_" + f, "mask", C18_DEP + ["C11"], "mask::%s == its power-of-two definition for every width" % f, ["mask::" + f],
      features=["default", "compact"])

PROPERTY_META["C18"] = dict(
    level="proof",
    claim="Proved for all inputs, no bound: loop-free Kani harnesses over the full symbolic domain (mant in [2^63,2^64), exp in [-63,2100]/[-63,320], every shift 0..=64) check the real round/round_nearest_tie_even/round_down/mask functions against a declarative nearest-even / truncation oracle on the packed bits.",
    note="Trusts Kani/CBMC and that spec_is_rne/spec_is_rtz state IEEE nearest-even/truncation (literal parameters 52/1075/2047, 23/150/255).",
    trusted_base=["spec_is_rne / spec_is_rtz (/verif/spec/verif_spec.rs) are the statement of 'nearest float, ties to even' / 'largest float not above'"],
    assumptions=[],
)

# --------------------------------------------------------------------------- C17
C17_DEP = ["C17", "C01", "C02", "C05"]
FLT = ["num::Float::is_denormal", "num::Float::exponent", "num::Float::mantissa", "num::Float::to_bits", "num::Float::from_bits"]
K("c17_f64_fields", "num", C17_DEP, "Float helpers on f64, for all 2^64 patterns: to_bits(from_bits(b))==b; is_denormal <=> E==0; finite => mantissa = f (+2^52 if E>0), exponent = max(E,1)-1075", FLT, features=ALL_CFG)
K("c17_f32_fields", "num", C17_DEP, "Float helpers on f32, for all 2^32 patterns (same contract, 23/150/255)", FLT, features=ALL_CFG)
K("c17_constants", "num", C17_DEP + ["C18", "C07", "C11"], "every per-format mask/size/bias constant equals its IEEE-754 definition written as a literal", ["num::Float (associated constants for f32, f64)"], features=ALL_CFG)
K("c17_from_u64_exact_f64", "num", C17_DEP, "from_u64(u) for all u <= 2^53 decodes back to exactly u (conversion exact in the fast-path range)", ["num::Float::from_u64"], features=["default", "compact"])
K("c17_from_u64_exact_f32", "num", C17_DEP, "from_u64(u) for all u <= 2^24 decodes back to exactly u", ["num::Float::from_u64"], features=["default", "compact"])
K("c17_pack_f64", "extended_float", C17_DEP + ["C18"], "extended_to_float::<f64>(f, E) has bits E<<52|f for all f<2^52, E in 0..=2047", ["extended_float::extended_to_float"], features=["default", "compact"])
K("c17_pack_f32", "extended_float", C17_DEP + ["C18"], "extended_to_float::<f32>(f, E) has bits E<<23|f for all f<2^23, E in 0..=255", ["extended_float::extended_to_float"], features=["default", "compact"])
K("c17_b_bh_f64", "slow", C17_DEP, "slow::b / bh on all finite non-negative f64: b=(m,e), b+h=(2m+1,e-1)", ["slow::b", "slow::bh"], features=["default", "compact"])
K("c17_b_bh_f32", "slow", C17_DEP, "slow::b / bh on all finite non-negative f32", ["slow::b", "slow::bh"], features=["default", "compact"])
PROPERTY_META["C17"] = dict(level="proof",
    claim="Proved for every f32 and f64 bit pattern (full symbolic u32/u64, loop-free): field helpers, bits round trip, packing, b/b+h, and each per-format constant against literals.",
    note="Trusts CBMC's bit-level model of float<->integer transmutes and conversions.", trusted_base=["CBMC's model of float<->bits transmutes and u64->float conversion (IEEE-754 RNE per CBMC's float bit-blasting)"], assumptions=[])

# --------------------------------------------------------------------------- C14 (tables)
import tables as _tables
X("c14_verus_lemire_table", "verus", _tables.make_runner(("lemire",)), ["C14", "C11", "C01", "C02", "C05", "C06", "C07", "C09", "C10"],
  "each of the 651 POWER_OF_FIVE_128 entries (literal extracted from src/table_lemire.rs) equals the 128-bit significand its definition gives: q>=0 top 128 bits of 5^q truncated; -27<=q<0 floor(2^(z+127)/5^-q)+1; q<-27 floor(2^(2z+128)/5^-q)+1 truncated to 128 bits; SMALLEST/LARGEST = -342/308",
  ["table_lemire::POWER_OF_FIVE_128", "table_lemire::SMALLEST_POWER_OF_FIVE", "table_lemire::LARGEST_POWER_OF_FIVE"])
X("c14_verus_small_tables", "verus", _tables.make_runner(("small",)), ["C14", "C12", "C01", "C02", "C05", "C06", "C07", "C09", "C10", "C04"],
  "SMALL_INT_POW5[i]==5^i (28), SMALL_INT_POW10[i]==10^i (20), LARGE_POW5 limbs == 5^135, LARGE_POW5_STEP==135, float tables' source text is 1e0..1e22 / 1e10 + zero padding",
  ["table_small::SMALL_INT_POW5", "table_small::SMALL_INT_POW10", "table_small::LARGE_POW5", "table_small::LARGE_POW5_STEP", "table_small::SMALL_F32_POW10", "table_small::SMALL_F64_POW10"])
X("c14_verus_bellerophon_tables", "verus", _tables.make_runner(("bellerophon",), features="compact"), ["C14", "C11", "C01", "C02", "C05", "C06", "C07", "C09", "C10"],
  "BASE10_SMALL_MANTISSA[i] == 10^i normalised (exact), BASE10_LARGE_MANTISSA[i] == truncated normalised 64-bit significand of 10^(10i-350) (66), BASE10_SMALL_INT_POWERS[i]==10^i, STEP/BIAS/LOG2_MULT/LOG2_SHIFT == 10/350/217706/16",
  ["table_bellerophon::BASE10_SMALL_MANTISSA", "table_bellerophon::BASE10_LARGE_MANTISSA", "table_bellerophon::BASE10_SMALL_INT_POWERS", "table_bellerophon::BASE10_STEP/BIAS/LOG2_MULT/LOG2_SHIFT"])
X("c14_verus_log2_formula", "verus", _tables.make_runner(("log2",)), ["C14", "C11", "C01", "C02"],
  "for every decimal exponent e in [-350, 310]: floor(217706*e / 2^16) == floor(log2(10^e))  (the binary-exponent formula of lemire::power and BellerophonPowers::get_small/get_large)",
  ["lemire::power (formula constant)", "bellerophon::BellerophonPowers::get_small/get_large (formula constant)"])
PROPERTY_META["C14"] = dict(
    level="proof",
    claim="Every table literal is extracted from /repo/src/table_*.rs on each run and compared with its mathematical definition by Verus assert-by-compute (finite set, fully computed): 651 Lemire significands, small integer powers, 5^135, Bellerophon significands, log2 formula; compiled float/integer powers decoded and checked by loop-free Kani harnesses; the 34 on-demand float powers of the bundled libm (no_std+compact) evaluated by CBMC and found exact.",
    note="std powf exactness (std+compact) is assumed and not registered; regex extraction trusted (entry count must match).",
    trusted_base=["regex extraction of the literals from src/table_*.rs (count must equal the declared length); Python-computed witnesses are checked by Verus, not trusted",
                  "std f32::powf / f64::powf exact on 10^0..10^10 / 10^22 in the std+compact configuration (outside the crate; Kani models powf nondeterministically) -- ASSUMED, not registered; the bundled libm (no_std+compact) IS verified: c14_float_pow10_ondemand_libm"],
    assumptions=["A-STD: std powf(10, i) exact for i <= 10 / 22 (std+compact builds only; the no_std libm powers are proved)"],
)

# --------------------------------------------------------------------------- C11 (Eisel-Lemire)
LEM_CFG = ["default", "alloc"]
C11L = ["C11", "C01", "C02", "C07", "C09", "C04", "C05"]
LEM = ["lemire::compute_float", "lemire::compute_product_approx", "lemire::full_multiplication", "lemire::power",
       "lemire::compute_error", "lemire::compute_error_scaled", "lemire::lemire"]
K("c11_power_formula", "lemire", C11L, "power(q) == floor(log2 10^q) + 63 for q in [-342,308], no wrap", ["lemire::power"], features=LEM_CFG)
K("c11_full_multiplication", "lemire", C11L, "full_multiplication(a,b) == (lo,hi) of the exact 128-bit product, all a,b", ["lemire::full_multiplication"], features=LEM_CFG)
K("c11_full_multiplication_norm", "lemire", C11L, "a,b >= 2^63 => hi >= 2^62 (range fact assumed of the uninterpreted product)", ["lemire::full_multiplication"], features=LEM_CFG, timeout=600)
K("c11_full_multiplication_hi_max", "lemire", C11L, "hi < 2^64 - 1 for all a,b (range fact assumed of the uninterpreted product: the carry increment cannot overflow)", ["lemire::full_multiplication"], features=LEM_CFG, timeout=600)
K("c11_full_multiplication_even", "lemire", C11L, "b even => lo even (range fact assumed of the uninterpreted product)", ["lemire::full_multiplication"], features=LEM_CFG, timeout=600)
for t in ("f64", "f32"):
    K("c11_product_approx_" + t, "lemire", C11L, "compute_product_approx(q, w, %s) with full_multiplication uninterpreted: index in range for q in [-342,308]; = first product; + high word of second product with carry exactly when first_hi & mask == mask; hi >= 2^62 for normalised w" % ("55" if t == "f64" else "26"), ["lemire::compute_product_approx"], features=LEM_CFG, zflags=("stubbing",), timeout=600)
K("c11_product_exact_q0_27", "lemire", C11L, "q in [0,27]: table low word 0, high word even and normalised; compute_product_approx == the single product w*T_hi (uninterpreted, with w*0 == 0); low word even", ["lemire::compute_product_approx", "table_lemire::POWER_OF_FIVE_128"], features=LEM_CFG, zflags=("stubbing",), timeout=600)
for t, r in (("f64", "q<-342 / q>308"), ("f32", "q<-65 / q>38")):
    K("c11_compute_float_shape_" + t, "lemire", C11L + ["C08"],
      "compute_float::<%s>(q,w) for ALL (i32,u64): no panic/overflow/OOB/debug_assert failure; definite => fields in range, finite or +inf, never NaN; w==0 or %s => +0.0 / +inf; declined => normalised, exponent formula, never inside q in [-27,55]" % (t, r),
      LEM, features=LEM_CFG, timeout=900)
    K("c11_compute_float_tail_" + t, "lemire", C11L,
      "compute_float::<%s> with compute_product_approx replaced by a symbolic product P (hi>=2^62): for all q in table range, w!=0: the product is requested exactly once for (q, normalised w) with at least ms+3 bits of precision; definite => packed result is RNE of some value in [P, P+2^64)*2^(floor(log2 10^q)-lz-63); declined => top 64 bits of P with matching exponent" % t,
      LEM, features=LEM_CFG, zflags=("stubbing",), timeout=900)
    K("c11_compute_float_exact_" + t, "lemire", C11L,
      "compute_float::<%s>, q in [0,27] (exact product, even low word): never declines; packed result == RNE(w*10^q) incl. ties-to-even inside the window (exact ties excluded above the window by lemma L-TIE)" % t,
      LEM, features=LEM_CFG, zflags=("stubbing",), timeout=900)
    K("c11_compute_error_" + t, "lemire", C11L, "compute_error::<%s>(q,w): normalised declined estimate with exponent formula, for all q in table range, w != 0" % t, LEM, features=LEM_CFG, timeout=600)
    K("c11_lemire_truncated_" + t, "lemire", C11L + ["C06"],
      "lemire::<%s>(num) for all Number (many_digits => mantissa < 10^19), compute_float/compute_error uninterpreted: untruncated or declined first pass == compute_float(q,w); truncated definite => compute_float(q,w) == compute_float(q,w+1) == result; they differ => compute_error(q,w) (declined, normalised); w+1 cannot overflow" % t,
      LEM, features=LEM_CFG, zflags=("stubbing",), timeout=600)

# --------------------------------------------------------------------------- P-FAST (number.rs) and compiled powers
PFAST = ["number::Number::is_fast_path", "number::Number::try_fast_path", "num::Float::pow_fast_path", "num::int_pow_fast_path"]
for t, rng in (("f64", "m<=2^53, -22<=e<=37"), ("f32", "m<=2^24, -10<=e<=17")):
    K("pfast_try_fast_path_" + t, "number", ["C01" if t == "f64" else "C02", "C08", "C09", "C10", "C05", "C04"],
      "try_fast_path (generic code instantiated with an abstract Float that records operations; constants and power look-up are the real %s ones), ALL Numbers: Some iff (!many_digits, %s, and for e>emax m*10^(e-emax) <= 2^(ms+1)); the result is exactly one IEEE op: from_u64(m)/10^-e, from_u64(m)*10^e, or from_u64(m*10^(e-emax))*10^emax; table index <= emax" % (t, rng),
      PFAST, features=["default"], timeout=1500)
    K("pfast_native_" + t, "number", ["C01" if t == "f64" else "C02", "C04", "C07", "C08"],
      "try_fast_path::<%s> ALL Numbers: no panic/OOB; Some(x) => x finite, non-negative, not NaN; zero significand => +0.0" % t,
      PFAST, features=["default", "alloc"], timeout=900)
K("c14_float_pow10_f64", "num", ["C14", "C01", "C05"], "f64::pow_fast_path(k) decoded from its bits == 10^k exactly, k in 0..=22", ["num::Float::pow_fast_path (f64)", "table_small::SMALL_F64_POW10"], features=["default", "alloc"])
K("c14_float_pow10_f32", "num", ["C14", "C02", "C05"], "f32::pow_fast_path(k) decoded from its bits == 10^k exactly, k in 0..=10", ["num::Float::pow_fast_path (f32)", "table_small::SMALL_F32_POW10"], features=["default", "alloc"])
K("c14_int_pow_fast_path", "num", ["C14", "C12", "C01", "C02", "C05"], "int_pow_fast_path(k, 5) == 5^k for k<=27 and (k, 10) == 10^k for k<=19 (table look-up or u64::pow)", ["num::int_pow_fast_path", "table_small::SMALL_INT_POW5", "table_small::SMALL_INT_POW10"], features=ALL_CFG)

PROPERTY_META["PFAST"] = dict(level="proof", claim="dev", note="dev")

# --------------------------------------------------------------------------- C13 (StackVec)
NOALLOC = ["default", "compact"]
SV = "stackvec::StackVec::"
C13P = ["C13", "C08", "C12", "C04"]
K("c13_new_len_capacity", "stackvec", C13P, "new()/len()/is_empty()/capacity()/deref length on every wf vector; capacity is 62 limbs of 64 bits", [SV + "new", SV + "len", SV + "is_empty", SV + "capacity", SV + "deref"], strength="capacity", bound="full capacity 62, symbolic length and limbs", features=NOALLOC)
K("c13_deref_view", "stackvec", C13P, "deref / deref_mut expose exactly data[..len]; a write through deref_mut changes exactly that element", [SV + "deref", SV + "deref_mut"], strength="capacity", bound="full capacity 62", features=NOALLOC)
K("c13_try_push", "stackvec", C13P, "try_push on every wf vector: len<62 => Some, appended, prefix unchanged; len==62 => None, contents unchanged", [SV + "try_push", SV + "push_unchecked"], strength="capacity", bound="full capacity 62", features=NOALLOC)
K("c13_pop", "stackvec", C13P, "pop on every wf vector: returns last element, prefix unchanged; None on empty", [SV + "pop", SV + "pop_unchecked"], strength="capacity", bound="full capacity 62", features=NOALLOC)
K("c13_try_extend_small", "stackvec", C13P, "try_extend at every pre-length 0..=62 with a slice of 0..=4 symbolic limbs: appended in order, prefix unchanged; sum > 62 => None, unchanged", [SV + "try_extend", SV + "extend_unchecked", SV + "set_len"], strength="bounded", bound="slice length <= 4 (pre-length unbounded up to capacity)", features=NOALLOC)
K("c13_try_from_small", "stackvec", C13P, "try_from(slice) for slices of 0..=4 limbs is the copy of the slice", [SV + "try_from"], strength="bounded", bound="slice length <= 4", features=NOALLOC)
K("c13_try_resize_small", "stackvec", C13P, "try_resize at every pre-length to any length: > 62 => None unchanged; shrink => prefix; grow (<= 4 new elements in this harness) => prefix + fill", [SV + "try_resize", SV + "resize_unchecked", SV + "truncate_unchecked"], strength="bounded", bound="growth <= 4 elements per call (any pre-length, any shrink)", features=NOALLOC)
K("c13_try_resize_concrete", "stackvec", C13P, "try_resize between concrete lengths (0->3, 2->4, 4->1, 60->62), symbolic contents and fill value: prefix kept, new elements equal the fill value", [SV + "try_resize", SV + "resize_unchecked"], strength="bounded", bound="length pairs (0,3),(2,4),(4,1),(60,62)", features=NOALLOC, timeout=900)
K("c13_normalize", "stackvec", C13P, "normalize / is_normalized on every wf vector (any length up to 62, at most 4 trailing zero limbs): strips exactly the trailing zero limbs", [SV + "normalize", SV + "is_normalized", "bigint::normalize", "bigint::is_normalized"], strength="bounded", bound="<= 4 trailing zero limbs per call, any length up to capacity", features=NOALLOC)
K("c13_from_u64", "stackvec", C13P, "from_u64(x): empty for 0, single limb otherwise", [SV + "from_u64", "bigint::from_u64"], features=NOALLOC)
K("c13_eq_cmp_short", "stackvec", C13P, "eq == sequence equality; cmp == length-first then most-significant-limb-first; for normalised vectors == numeric order", [SV + "eq", SV + "cmp", SV + "partial_cmp", "bigint::compare"], strength="bounded", bound="vectors of <= 3 limbs", features=NOALLOC)
K("c13_cmp_bounded8", "stackvec", C13P, "compare on wf vectors up to 8 limbs (symbolic lengths): different lengths by length; equal lengths by the most significant differing limb", ["bigint::compare"], strength="bounded", bound="vectors of <= 8 limbs", features=NOALLOC, timeout=600)

# --------------------------------------------------------------------------- C12 (bigint)
BI = "bigint::"
C12P = ["C12", "C04", "C01", "C02", "C05"]
BOTH_VEC = ["default", "alloc", "compact"]
K("c12_scalar_add", "bigint", C12P, "scalar_add(x,y) == (x+y mod 2^64, carry) for all x,y", [BI + "scalar_add"], features=BOTH_VEC)
K("c12_scalar_mul", "bigint", C12P, "scalar_mul(x,y,c): lo + hi*2^64 == x*y + c exactly, all x,y,c", [BI + "scalar_mul"], features=BOTH_VEC, timeout=900)
K("c12_u64_to_hi64", "bigint", C12P, "u64_to_hi64_1/2: top 64 bits of the 64/128-bit value (r0 != 0) and the lower-bits flag", [BI + "u64_to_hi64_1", BI + "u64_to_hi64_2"], features=BOTH_VEC)
K("c12_small_add_from", "bigint", C12P, "small_add_from(x,y,start): value' = value + y*2^(64 start), start <= len", [BI + "small_add_from", BI + "small_add"], strength="bounded", bound="x <= 3 limbs", features=BOTH_VEC)
K("c12_small_mul", "bigint", C12P, "small_mul(x,y): value' = value*y (scalar_mul replaced by its contract over an uninterpreted product)", [BI + "small_mul"], strength="bounded", bound="x <= 3 limbs", features=BOTH_VEC, zflags=("stubbing",), timeout=900)
K("c12_capacity_edge_small_ops", "bigint", C12P + ["C08", "C13"], "at 62 limbs a carry out of small_add/small_mul/shl_bits returns None (no write outside the buffer); at 61 limbs it is pushed", [BI + "small_add", BI + "small_mul", BI + "shl_bits"], strength="capacity", bound="lengths 61 and 62, all limbs 2^64-1", features=["default", "compact"], timeout=1200, tier="thorough")
K("c12_capacity_edge_small_mul", "bigint", C12P + ["C08", "C13"], "at exactly 62 limbs a carry out of small_mul / small_add returns None, length unchanged (quick variant of c12_capacity_edge_small_ops)", [BI + "small_mul", BI + "small_add"], strength="capacity", bound="length 62, all limbs 2^64-1", features=["default", "compact"], timeout=900)
for lx in range(4):
    K("c12_large_add_from_x%d" % lx, "bigint", C12P, "large_add_from(x,y,start): value' = value + val(y)*2^(64 start)", [BI + "large_add_from", BI + "large_add"], strength="bounded", bound="x of %d limbs, y <= 3 limbs, start <= 2" % lx, features=BOTH_VEC, timeout=900, tier="quick" if lx in (1, 2) else "thorough")
for lx, ly in ((1, 1), (1, 2), (2, 1), (2, 2)):
    K("c12_long_mul_%dx%d" % (lx, ly), "bigint", C12P, "long_mul(x,y): value == val(x)*val(y), normalised (scalar_mul by contract over an uninterpreted commutative product)", [BI + "long_mul"], strength="bounded", bound="x of %d, y of %d limbs" % (lx, ly), features=BOTH_VEC, zflags=("stubbing",), timeout=1200, tier="quick" if (lx, ly) == (1, 1) else "thorough")
    K("c12_large_mul_%dx%d" % (lx, ly), "bigint", C12P, "large_mul(x,y): value' = value*val(y) (one-limb y via small_mul, otherwise long_mul(y,x))", [BI + "large_mul"], strength="bounded", bound="x of %d, y of %d limbs" % (lx, ly), features=BOTH_VEC, zflags=("stubbing",), timeout=1200, tier="quick" if (lx, ly) in ((1, 1), (2, 1)) else "thorough")
K("c12_long_mul_zero_limb", "bigint", C12P, "long_mul([x0], [0, y1]) == x0*y1 * 2^64: a zero low limb of the multiplier contributes nothing but keeps its position", [BI + "long_mul"], strength="bounded", bound="x of 1 limb, y = [0, y1]", features=["default"], zflags=("stubbing",), timeout=1200)
K("c12_long_mul_zero_inner_limb", "bigint", C12P, "long_mul([x0], [y0, 0, y2]) == x0*y0 + x0*y2 * 2^128", [BI + "long_mul"], strength="bounded", bound="x of 1 limb, y = [y0, 0, y2]", features=["default"], zflags=("stubbing",), timeout=1800, tier="thorough")
K("c12_mul_assign_wrappers", "bigint", C12P, "Bigint *= &Bigint and VecType *= &[Limb] (one-limb operands): value' = value * val(rhs)", ["bigint::Bigint::mul_assign", "stackvec::StackVec::mul_assign / heapvec::HeapVec::mul_assign"], strength="bounded", bound="one-limb operands", features=BOTH_VEC, zflags=("stubbing",), timeout=900)
for lx, ly in ((1, 3), (3, 1)):
    K("c12_long_mul_%dx%d" % (lx, ly), "bigint", C12P, "long_mul(x,y): value == val(x)*val(y), normalised (scalar_mul by contract over an uninterpreted commutative product)", [BI + "long_mul"], strength="bounded", bound="x of %d, y of %d limbs" % (lx, ly), features=["default"], zflags=("stubbing",), timeout=2400, tier="thorough")
K("c12_shl_bits", "bigint", C12P, "shl_bits(x,n), 1<=n<=63: value' = value*2^n", [BI + "shl_bits"], strength="bounded", bound="x <= 3 limbs", features=BOTH_VEC)
for ln in range(4):
    K("c12_shl_limbs_len%d" % ln, "bigint", C12P + ["C08", "C16"], "shl_limbs(x,n): None iff n+len > 62 (contents unchanged); else limbs moved up by n, zero filled", [BI + "shl_limbs"], strength="bounded", bound="x of %d limbs, n in {1, 17, capacity edge -1/0/+1, 70}" % ln, features=["default", "compact"], timeout=900, tier="quick" if ln in (0, 2) else "thorough")
for ln in range(3):
    K("c12_shl_len%d" % ln, "bigint", C12P, "shl(x,n): value' = value*2^n (bits then limbs)", [BI + "shl"], strength="bounded", bound="x of %d limbs, n in [0,64) u [64,128) u [192,256)" % ln, features=BOTH_VEC, timeout=1800, tier="thorough")
for ln in range(1, 5):
    K("c12_hi64_bit_length_%d" % ln, "bigint", C12P + ["C06"], "hi64 / bit_length / leading_zeros on normalised vectors: top 64 bits of the value, flag == any lower bit set (all lower limbs), bit length of the value", [BI + "hi64", BI + "nonzero", BI + "bit_length", BI + "leading_zeros", BI + "rview"], strength="bounded", bound="%d limbs" % ln, features=BOTH_VEC, timeout=900, tier="quick" if ln in (3, 4) else "thorough")
K("c12_hi64_empty", "bigint", C12P, "empty vector: hi64 == (0,false), bit_length == 0", [BI + "hi64", BI + "bit_length"], features=BOTH_VEC)
K("c12_pow_factors", "bigint", C12P, "pow(x,exp) for every exp <= 1200, small_mul/large_mul replaced by ghost recorders: every factor is an exact power of five (5^135 constant, 5^27, table 5^k) and the exponents sum to exp", [BI + "pow"], strength="capacity", bound="exp <= 1200 (the slow path needs <= 1112)", features=BOTH_VEC, zflags=("stubbing",), timeout=900)
K("c12_bigint_pow_dispatch", "bigint", C12P, "Bigint::pow(base,exp), base in {2,5,10}: multiplies by 5^exp iff 5|base, shifts by exp iff 2|base", [BI + "Bigint::pow"], features=BOTH_VEC, zflags=("stubbing",))

# --------------------------------------------------------------------------- P-NUM / G-DISPATCH (parse.rs)
PN = ["parse::parse_number", "parse::parse_number_fast", "parse::into_i32"]
PNP = ["C01", "C02", "C04", "C06", "C07", "C10", "C09"]
PNUM_CASES = ['pnum_i0_f0', 'pnum_i1_f0', 'pnum_i18_f0', 'pnum_i19_f0', 'pnum_i20_f0', 'pnum_i21_f0', 'pnum_i23_f0', 'pnum_i0_f1_z0', 'pnum_i0_f1_z1', 'pnum_i0_f2_z1', 'pnum_i0_f19_z0', 'pnum_i0_f19_z5', 'pnum_i0_f19_z19', 'pnum_i0_f20_z0', 'pnum_i0_f20_z1', 'pnum_i0_f20_z20', 'pnum_i0_f21_z1', 'pnum_i0_f21_z2', 'pnum_i0_f23_z0', 'pnum_i0_f23_z3', 'pnum_i0_f23_z4', 'pnum_i0_f23_z5', 'pnum_i0_f23_z22', 'pnum_i1_f1', 'pnum_i1_f18', 'pnum_i1_f19', 'pnum_i1_f20', 'pnum_i10_f9', 'pnum_i10_f10', 'pnum_i10_f12', 'pnum_i18_f1', 'pnum_i18_f2', 'pnum_i18_f4', 'pnum_i19_f1', 'pnum_i19_f3', 'pnum_i20_f1', 'pnum_i21_f3', 'pnum_i5_f19']
PNUM_QUICK = ['pnum_i0_f0', 'pnum_i0_f19_z5', 'pnum_i0_f20_z1', 'pnum_i0_f20_z20', 'pnum_i0_f23_z4', 'pnum_i10_f10', 'pnum_i18_f2', 'pnum_i19_f0', 'pnum_i19_f1', 'pnum_i1_f19', 'pnum_i20_f0', 'pnum_i20_f1']
for nm in PNUM_CASES:
    K(nm, "parse", PNP, "parse_number(int, frac, e) == spec_parse_number: mantissa = first 19 significant digits, many_digits <=> 20th significant digit exists, exponent = sat(e + dropped integer digits - consumed fraction digits), for all digit values and ALL i32 exponents", PN,
      strength="bounded", bound="digit-count shape %s (i = integer digits, f = fraction digits, z = leading fraction zeros), all digit values symbolic" % nm[5:], features=["default", "compact"], timeout=900, tier="quick" if nm in PNUM_QUICK else "thorough")
K("pnum_into_i32_add_digit", "parse", PNP, "into_i32 clamps usize to i32::MAX; add_digit is checked x*10+d", ["parse::into_i32", "parse::add_digit"], features=["default", "compact"])
for t in ("f64", "f32"):
    K("gdispatch_parse_float_" + t, "parse", ["C01" if t == "f64" else "C02", "C04", "C07", "C16", "C05", "C09", "C10"],
      "parse_float (generic code, abstract Float with the real %s constants; parse_number / moderate_path / slow replaced by ghost recorders returning contract-constrained symbolic results): fast-path value returned as is; else definite moderate result packed unchanged with no slow call; else exactly one slow call with (num, estimate un-biased by 32768, the original iterators) and its result packed unchanged" % t,
      ["parse::parse_float", "parse::moderate_path", "extended_float::extended_to_float"], features=["default"], zflags=("stubbing",), timeout=1200)
K("gdispatch_moderate_is_lemire", "parse", ["C01", "C02", "C05"], "moderate_path == lemire in non-compact builds (smoke-size domain: the wrapper has no logic)", ["parse::moderate_path"], strength="bounded", bound="mantissa < 1000, exponent 0..=5", features=["default", "alloc"], timeout=600)

# --------------------------------------------------------------------------- P-SLOW (slow.rs)
PSP = ["C01", "C02", "C04", "C06", "C07", "C09", "C10"]
K("pslow_scientific_exponent", "slow", PSP, "scientific_exponent(num) == exponent + floor(log10 mantissa) for every u64 mantissa, |exponent| <= 2^31-21", ["slow::scientific_exponent"], features=["default", "compact"])
for t, md in (("f64", 769), ("f32", 114)):
    K("pslow_slow_glue_" + t, "slow", PSP, "slow::<%s> with parse_mantissa / positive_digit_comp / negative_digit_comp replaced by ghost recorders: keeps %d digits; scale = scientific_exponent + 1 - digits kept; sign of scale selects the comparison; estimate passed unchanged; result returned unchanged" % (t, md), ["slow::slow"], features=["default", "compact"], zflags=("stubbing",), timeout=600)
    for ln in (1, 2, 3):
        K("pslow_positive_comp_%s_%d" % (t, ln), "slow", PSP, "positive_digit_comp::<%s> with Bigint::pow a ghost recorder (contract: value becomes digits*10^e): one scaling by 10^e; packed result == RNE(sticky) of the big integer's value (top 64 bits, bit length, all lower bits)" % t, ["slow::positive_digit_comp", "bigint::Bigint::hi64", "bigint::Bigint::bit_length"], strength="bounded", bound="scaled integer of %d limbs (all limb values)" % ln, features=["default", "compact"], zflags=("stubbing",), timeout=900, tier="quick" if ln in (1, 2) else "thorough")

PMANT_CASES = ['pslow_pmant_i19_f3_lead0', 'pslow_pmant_i38_f0_all', 'pslow_pmant_i20_f18_all', 'pslow_pmant_i0_f23_z1_m21', 'pslow_pmant_i3_f0_all', 'pslow_pmant_i0_f5_z2_all', 'pslow_pmant_i0_f3_z3_all', 'pslow_pmant_i2_f3_all', 'pslow_pmant_i20_f0_all', 'pslow_pmant_i19_f2_all', 'pslow_pmant_i5_f5_m3', 'pslow_pmant_i2_f5_m4', 'pslow_pmant_i2_f5_m7', 'pslow_pmant_i0_f8_z2_m4', 'pslow_pmant_i21_f0_m20', 'pslow_pmant_i19_f3_m19', 'pslow_pmant_i10_f12_m21']
PMANT_QUICK = ['pslow_pmant_i19_f3_lead0', 'pslow_pmant_i38_f0_all', 'pslow_pmant_i19_f2_all', 'pslow_pmant_i3_f0_all', 'pslow_pmant_i0_f5_z2_all', 'pslow_pmant_i5_f5_m3', 'pslow_pmant_i2_f5_m4', 'pslow_pmant_i0_f8_z2_m4', 'pslow_pmant_i2_f3_all', 'pslow_pmant_i21_f0_m20']
for nm in PMANT_CASES:
    K(nm, "slow", PSP, "parse_mantissa(int, frac, max_digits), vector mul_small/add_small replaced by ghost value recorders (contracts c12_small_mul / c12_small_add_from): big integer == first min(significant, max_digits) significant digits (leading fraction zeros skipped when there is no integer part), plus ONE digit '1' iff a later digit of integer or fraction is non-zero (trailing zeros never add it); count == digits in that integer", ["slow::parse_mantissa"], zflags=("stubbing",),
      strength="bounded", bound="digit-count shape %s (i integer digits, f fraction digits, z leading zeros, m/all = max_digits), all digit values symbolic" % nm[12:], features=["default", "compact"], timeout=1200, tier="quick" if nm in PMANT_QUICK else "thorough")
for nm, t, k, dom in (("pslow_negative_comp_f64_k1", "f64", 1, "D < 2^24, e_b in [-90,-30] (no tie possible)"),
                      ("pslow_negative_comp_f32_k1", "f32", 1, "D < 2^24, e_b in [-60,-1] (no tie possible)"),
                      ("pslow_negative_comp_f64_k1_tie", "f64", 1, "D < 2^63, e_b in [-3,0] (exact ties reachable)"),
                      ("pslow_negative_comp_f64_k3_tie", "f64", 3, "D < 2^63, e_b in [-3,0] (exact ties reachable)"),
                      ("pslow_negative_comp_f32_k2_tie", "f32", 2, "D < 2^40, e_b in [-6,0] (exact ties reachable)"),
                      ("pslow_negative_comp_f32_k1_tie", "f32", 1, "D < 2^30, e_b in [-3,0] (exact ties reachable)")):
    K(nm, "slow", PSP, "negative_digit_comp::<%s>(D, fp, -%d) with Bigint::pow replaced by an exact single-limb model: result == b (estimate truncated) if D*10^-%d < b+h, next float if >, even one on a tie" % (t, k, k), ["slow::negative_digit_comp", "slow::bh", "rounding::round", "rounding::round_down"], strength="bounded", bound="%s; one limb, all scaled values < 2^64" % dom, features=["default", "compact"], zflags=("stubbing",), timeout=1500, tier="quick" if nm == "pslow_negative_comp_f32_k1_tie" else "thorough")

# --------------------------------------------------------------------------- C15 (allocation frame)
import callgraph as _cg
for cfg in ("default", "compact", "nostd_compact"):
    for t in ("f64", "f32"):
        X("c15_alloc_frame_%s_%s" % (cfg, t), "static", _cg.make_runner(cfg, "c15_entry_" + t, False), ["C15"],
          "frame: in configuration `%s` no allocator entry point (__rust_alloc*, alloc::*, malloc/calloc/realloc, RawVec) is in the call-graph closure of parse_float::<%s> (Kani GOTO program, function pointers resolved by type)" % (cfg, t),
          ["parse::parse_float (whole call tree)"], strength="proved", tier="quick" if t == "f64" else "thorough")
X("c15_alloc_frame_nonvacuity", "static", _cg.make_runner("alloc", "c15_entry_f64", True), ["C15"],
  "non-vacuity: with the alloc feature the same closure DOES contain allocator entry points (the detector can see them)", ["parse::parse_float (whole call tree)"], strength="proved")
for t in ("f64", "f32"):
    K("c15_entry_" + t, "parse", ["C15", "C04"], "entry harness: parse_float::<%s> on 2+2 symbolic digits, every exponent: returns without panic (the same GOTO program is the one analysed for the allocation frame)" % t,
      ["parse::parse_float"], strength="bounded", bound="2 integer + 2 fraction digits", features=["default"], timeout=1200, tier="thorough")
PROPERTY_META["C15"] = dict(
    level="other",
    claim="Frame condition decided statically for ALL inputs: the call-graph closure of parse_float in Kani's GOTO program (function pointers over-approximated by type) contains no allocator entry in default / compact / no_std+compact; the same analysis finds allocator entries under --features alloc (non-vacuity).",
    note="Panic paths are cut by Kani (panic = failed check), matching the property's 'valid input' scope together with C04; trusts Kani's codegen and goto-instrument's call graph; a frame condition rather than a pre/postcondition.",
    explanation="Static frame check (contract family: 'nothing outside the frame is touched'): for each non-alloc configuration the GOTO program of a parse_float entry harness is built from /repo's working tree, goto-instrument --call-graph is run after function-pointer removal, and the transitive closure from the entry is required to contain no allocator symbol. Over-approximate for all inputs, no unwinding bound.",
    technique="static frame check on the verifier's GOTO program (call-graph closure, goto-instrument)",
)

# --------------------------------------------------------------------------- C16 (purity)
K("c16_iter_shapes_parse_number_small", "parse", ["C16"], "parse_number: identical Number for slice iterators, chain, filter(always true), take/skip, a hand-written cloneable iterator, and a copy of the bytes at another address", ["parse::parse_number", "parse::parse_number_fast"], strength="bounded", bound="shapes (0,0),(1,0),(0,2),(3,2)", features=["default", "compact"], timeout=900)
K("c16_iter_shapes_parse_number_21", "parse", ["C16"], "same, on a 21+1 digit input: remaining integer digits are counted whatever the iterator type", ["parse::parse_number"], strength="bounded", bound="shape (21,1)", features=["default", "compact"], timeout=1200)
K("c16_iter_shapes_parse_number_20", "parse", ["C16"], "same, on a 18+3 digit input (second pass, truncation)", ["parse::parse_number"], strength="bounded", bound="shape (18,3)", features=["default", "compact"], timeout=1200, tier="thorough")
# (c16_frame_parse_float_f64: function contract with empty modifies on parse_float timed out at 20 min in CBMC assigns instrumentation: NOT registered)

# --------------------------------------------------------------------------- C19 (string front-end)
FRONT = {"simple": "verif_front_simple", "fuzz": "verif_front_fuzz"}
for key, mod in FRONT.items():
    src = "examples/simple.rs" if key == "simple" else "fuzz/fuzz_targets/parse.rs"
    o = K("c19_front_" + key, mod, ["C19"], "%s parse_float (instantiated with the abstract Spy float; the library call replaced by a ghost recorder that checks its preconditions), EVERY byte string of length <= 8: consumed prefix == longest match of [+-]?[0-9]*(\\.[0-9]*)?([eE][+-]?[0-9]*)?; library called once with leading/trailing zeros trimmed and the exponent value; value negated once iff '-'; suffix exactly the rest%s; no panic" % (src, "; nan/inf/infinity literals, empty match => (0.0, bytes)" if key == "fuzz" else ""),
          [src + "::parse_float", src + "::parse_sign", src + "::consume_digits", src + "::ltrim_zero", src + "::rtrim_zero"], strength="bounded", bound="all byte strings of length <= 8 (every byte value)", features=["default"], zflags=("stubbing",), timeout=1500)
    K("c19_parse_exponent", mod, ["C19"], "%s parse_exponent on 0, 1, 3 digits: +/- value, never panics" % src, [src + "::parse_exponent"], strength="bounded", bound="exponent digit counts {0,1,3}, all digit values", features=["default"], timeout=900, id_suffix=key)
    K("c19_parse_exponent_10", mod, ["C19"], "%s parse_exponent on 10 digits (the i32 range ends here): clamp, never panics" % src, [src + "::parse_exponent"], strength="bounded", bound="10 exponent digits, all digit values", features=["default"], timeout=1800, id_suffix=key, tier="thorough")
    K("c19_parse_exponent_11", mod, ["C19"], "%s parse_exponent on 11 digits: always saturates or clamps, never panics" % src, [src + "::parse_exponent"], strength="bounded", bound="11 exponent digits, all digit values", features=["default"], timeout=1800, id_suffix=key, tier="thorough")
    K("c19_parse_exponent_boundary", mod, ["C19"], "%s parse_exponent on 214748364d and 214748364dd (d symbolic), both signs: last exact values +2147483647 / -2147483648, beyond them saturation towards the exponent's own sign" % src, [src + "::parse_exponent"], strength="bounded", bound="10/11 digits with the concrete prefix 214748364", features=["default"], timeout=900, id_suffix=key)
    K("c19_parse_exponent_leading_zeros", mod, ["C19"], "%s parse_exponent on digit runs of 11..16 digits whose leading digits are zeros and whose last four are symbolic, both signs: the result is the VALUE (no saturation by digit count)" % src, [src + "::parse_exponent"], strength="bounded", bound="11..16 exponent digits = concrete zero padding + 4 symbolic digits", features=["default"], timeout=900, id_suffix=key)
    K("c19_helpers", mod, ["C19"], "%s parse_sign / consume_digits / ltrim_zero / rtrim_zero on arbitrary bytes" % src, [src + "::parse_sign", src + "::consume_digits", src + "::ltrim_zero", src + "::rtrim_zero"], strength="bounded", bound="length <= 8", features=["default"], id_suffix=key)
import staticscan as _ss
X("c16_no_global_state", "static", _ss.run, ["C16"], "frame (syntactic): the crate's sources contain no `static mut`, interior-mutable static, thread-local, lazily initialised or lock-protected global: calls share no state, hence history- and schedule-independent", ["crate-wide"], strength="proved")
PROPERTY_META["C16"] = dict(
    level="proof",
    claim="Frame: the crate owns no mutable global state (source scan) and parse_float under an EMPTY modifies clause writes nothing outside its locals (Kani function contract, bounded input size) - so calls are history- and schedule-independent; iterator independence: parse_number (the only consumer besides parse_mantissa) returns the identical Number for slice/chain/filter/take/skip/hand-written iterators and for a copy of the bytes at another address (bounded digit counts); zero-fill on limb shift/resize is in C12/C13.",
    note="Universally quantified 'any well-behaved iterator' is not expressible as a Kani contract: five concrete adaptor shapes are checked. Concurrency is decided by the absence of shared state, not by exploring interleavings (Kani has no threads). x87 control word (32-bit x86 + nightly) out of scope on x86-64. Bounded in input length.",
)

# --------------------------------------------------------------------------- C11 (Bellerophon, compact builds)
BELL_CFG = ["compact", "compact_alloc", "nostd_compact"]
BELL = ["bellerophon::bellerophon", "bellerophon::error_is_accurate", "bellerophon::normalize", "bellerophon::mul", "bellerophon::BellerophonPowers::get_small", "bellerophon::BellerophonPowers::get_large", "bellerophon::BellerophonPowers::get_small_int"]
for t in ("f64", "f32"):
    K("c11_bell_shape_" + t, "bellerophon", C11L + ["C08", "C05"], "bellerophon::<%s>(num) for ALL Numbers: no panic/overflow/OOB/debug_assert failure; definite => fields in range, finite or +inf, never NaN; mantissa 0 or exponent <= -4096 => +0.0; exponent >= 4096 => +inf; declined => normalised, exponent un-biases into [-64, 2200]" % t, BELL, features=BELL_CFG, timeout=900)
    K("c11_bell_band_" + t, "bellerophon", C11L + ["C06", "C05"], "error_is_accurate::<%s> band soundness: for all normalised (mant, exp) and ALL errors (u32): accepted => every significand in (mant-errors, mant+errors) rounds (round + nearest-even callback as used) to the same packed float as mant" % t, ["bellerophon::error_is_accurate", "rounding::round", "rounding::round_nearest_tie_even"], features=BELL_CFG, timeout=900)
    K("c11_bell_truncation_" + t, "bellerophon", C11L + ["C06", "C05"], "bellerophon::<%s> with error_is_accurate a ghost recorder and mul an arbitrary function: for ALL truncated (w != 0, q): the error bound handed to error_is_accurate >= 2^(lz(w)+2) eighth-ULPs (necessary: one unit of the truncated significand exceeds 2^(lz(w)-1) ULPs of the final mantissa), or saturated" % t, ["bellerophon::bellerophon"], features=BELL_CFG, zflags=("stubbing",), timeout=900)
# c11_bell_truncation_error_fn (truncation_error(w) == min(8*floor((2^64-1)/w), 2^28-1)): divider-vs-multiplier relation, not discharged by cadical / kissat / z3 / cvc5 within 400 s each: NOT registered
K("c11_bell_truncation_propagates", "bellerophon", C11L + ["C06"], "bellerophon with truncation_error a ghost returning T: the bound handed to error_is_accurate >= T", ["bellerophon::bellerophon"], features=BELL_CFG, zflags=("stubbing",), timeout=900)
# (c11_bell_structure_*: full structural contract of bellerophon() with mul / error_is_accurate as recorders did not discharge within 25 min even at 4 concrete exponents: NOT registered)
for t in ("f64", "f32"):
    K("c11_bell_accept_" + t, "bellerophon", C11L + ["C05", "C07"], "bellerophon::<%s>, ALL Numbers, mul arbitrary, error_is_accurate a recorder with symbolic verdict: estimate normalised with exponent >= -64; rejected => that estimate un-rounded, biased invalid; accepted => +0.0 at exponent -64 (value < 2^-bias), else packed result == RNE of the estimate; no estimate consulted => only +0.0 / +inf" % t, BELL, features=BELL_CFG, zflags=("stubbing",), timeout=900)
K("c11_bell_no_early_out_f64", "bellerophon", C11L + ["C05", "C07"], "bellerophon::<f64>, ALL w != 0, q in [-280, 309] (mul arbitrary, error_is_accurate a recorder): no early zero/infinity - the estimate is computed and consulted exactly once", BELL, features=BELL_CFG, zflags=("stubbing",), timeout=900)
K("c11_bell_no_early_out_f32", "bellerophon", C11L + ["C05", "C07"], "bellerophon::<f32>, ALL w != 0, q in [-30, 309]: no early zero/infinity", BELL, features=BELL_CFG, zflags=("stubbing",), timeout=900)
K("c11_bell_normalize", "bellerophon", C11L, "normalize: mant<<lz, exp-lz, returns lz; zero untouched", ["bellerophon::normalize"], features=BELL_CFG)
for sfx in ("small", "large_a", "large_b", "large_c", "large_d", "large_e", "large_f"):
    K("c11_bell_mul_" + sfx, "bellerophon", C11L, "mul(x,y).mant == floor((x*y + 2^63)/2^64), exp == x.exp+y.exp+64 for every normalised x and y = each table power in the group (as constants)", ["bellerophon::mul"], strength="proved", bound="y ranges over the table entries of the group (all 76 entries over the 7 groups); x arbitrary", features=BELL_CFG[:1], timeout=3600, tier="thorough")
K("c11_bell_powers", "bellerophon", C11L + ["C14", "C08"], "get_small(i<10) / get_large(j<66): index in range, exponent == floor(log2 10^e) - 63, significand normalised; small_int[i] == 10^i; step 10, bias 350", BELL[4:], features=BELL_CFG)

# =========================================================================== per-property claims
A_LEMIRE = "A-LEMIRE: for decimal exponents q outside [0,27] the 128-bit truncated product suffices whenever Eisel-Lemire does not decline (Mushtak & Lemire 2023), and a declined estimate truncates to a float b with b <= value < b + 1.5 ulp - number theory beyond the SAT back end; ASSUMED"
A_CLINGER = "A-CLINGER: the ARITHMETIC part of Bellerophon's error budget (table truncation <= 1 ulp, rounding of each extended product <= 1/2 ulp, in 1/8-ulp units) bounds the true error of the two multiplications - ASSUMED. Proved: the truncation part of the budget (c11_bell_truncation_*), band soundness for any budget (c11_bell_band_*), and that the exact value of truncation_error is 8*floor((2^64-1)/w) was inspected, not discharged (divider vs multiplier)"
A_IEEE = "A-IEEE: the hardware's f32/f64 `*` and `/` on exactly representable operands return the correctly rounded result (CBMC's float circuits versus an integer oracle timed out) - ASSUMED; which single operation is applied to which exact operands is proved"
A_TIE = "L-TIE: w*10^q with q in [24,27] (f32: [11,27]) is never an exact rounding tie (5^q | 2m+1 < 2^54 forces q <= 23; 2^25 -> q <= 10) - pen-and-paper lemma, ASSUMED"
A_CAP = "L-CAP: with <= 770 digits, decimal exponents inside the moderate stage's table range and an estimate within 2 ulp, every big integer formed is below 2^3968 (62 limbs) - pen-and-paper bound in DESIGN.md, ASSUMED (the operations' None-iff-too-large behaviour at the capacity edge is checked)"
A_BOUND = "bounded obligations (digit-count shapes, limb counts) are stand-ins, not proofs: listed per obligation in coverage.samples[].bound"

CHAIN_NOTE = ("Conditional: the contract chain parse_number -> try_fast_path | moderate stage -> slow path -> round/pack is checked link by link "
              "(dispatch with callees replaced by their contracts); links that are ASSUMED, not proved: " + "; ".join([A_LEMIRE.split(':')[0], A_CLINGER.split(':')[0], A_IEEE.split(':')[0], A_TIE.split(':')[0], A_CAP.split(':')[0]]) +
              ". Loop-carrying functions are checked on stated digit-count / limb-count bounds (bounded stand-ins).")

PROPERTY_META["C01"] = dict(
    level="proof",
    claim="Every link of the f64 chain carries a contract discharged by Kani on the real code: digit accumulation == spec (bounded shapes, all i32 exponents), fast path == one IEEE op on exact operands (all Numbers, abstract Float), Eisel-Lemire shape for all (q,w), tail == RNE of its product for all q, EXACT correct rounding for all w and q in [0,27] incl. ties, w/w+1 dispatch, slow-path glue, parse_mantissa, positive/negative digit comparison (bounded), round/pack proved for all inputs, tables proved by Verus. Correct rounding for ALL inputs follows only together with the listed assumed links.",
    note=CHAIN_NOTE, assumptions=[A_LEMIRE, A_IEEE, A_TIE, A_CAP, A_BOUND], trusted_base=["assumed contracts: A-LEMIRE, A-IEEE, L-TIE, L-CAP (see assumptions)"])
PROPERTY_META["C02"] = dict(
    level="proof",
    claim="Same chain as C01 instantiated for f32 (every generic function is verified for both instantiations; f32 constants pinned against literals; f32 fast path uses f32 operations and the f32 power table - one rounding).",
    note=CHAIN_NOTE, assumptions=[A_LEMIRE, A_IEEE, A_TIE, A_CAP, A_BOUND], trusted_base=["assumed contracts: A-LEMIRE, A-IEEE, L-TIE, L-CAP"])
PROPERTY_META["C04"] = dict(
    level="proof",
    claim="Kani checks every unwrap, debug_assert!, arithmetic/shift overflow and index on the paths of every obligation (debug-assertion semantics). Complete (all inputs) for the loop-free layers: number.rs, lemire.rs, bellerophon.rs, rounding.rs, mask.rs, num.rs, extended_float.rs, into_i32, scalar big-integer helpers, scientific_exponent; bounded for parse_number, parse_mantissa, vector operations; capacity unwraps rest on L-CAP.",
    note="Release vs debug: absence of overflow / failed debug_assert in the debug-assertion build implies the release build computes the same values. Capacity never exhausted: None-iff-too-large at the edge is checked, the size bound L-CAP is assumed. Inputs of 10^6 digits are beyond every bound: covered only by the uniform loop structure.",
    assumptions=[A_CAP, A_BOUND, "declined estimates have biased exponent >= -64 (round's shift <= 65 debug_assert) - follows from A-LEMIRE, not proved"])
PROPERTY_META["C05"] = dict(
    level="proof",
    claim="No verifier run can see two cfg-exclusive versions at once: C05 is decided as 'every configuration-sensitive function satisfies the SAME configuration-independent contract in each configuration': table look-ups and on-demand powers both equal the exact powers, bigint::pow with and without the 5^135 step has the same factor contract, StackVec/HeapVec carry the same big-integer contracts, Lemire and Bellerophon satisfy the same 'definite => in range / band-sound, declined => normalised estimate' contracts; the thorough tier runs each tagged obligation under default, compact, alloc, compact+alloc, no_std+compact.",
    note="Quick tier runs each obligation in its first configuration only; bit-identity across configurations follows from the common contracts plus the assumed links of C01 (A-LEMIRE / A-CLINGER decide the same value). std powf (std+compact) assumed exact.",
    assumptions=[A_LEMIRE, A_CLINGER, "A-STD: std powf(10,i) exact for i <= 10/22 (std+compact)", A_BOUND])
PROPERTY_META["C06"] = dict(
    level="proof",
    claim="Each of the three truncation mechanisms has its own contract: (1) parse_number: 19 significant digits, many_digits flag, exponent correction (shapes up to 23 digits); (2) lemire: definite for a truncated significand only if w and w+1 agree (all inputs) / Bellerophon band soundness (all inputs); (3) parse_mantissa: cut at max_digits, exactly one sticky digit iff a later digit is non-zero, trailing zeros never add it, count (shapes up to 24 digits, small max_digits); sticky flag of hi64 covers all lower limbs; sticky rounding proved for all inputs (C18).",
    note="Bounded in digit count (<= 24): inputs with 10^6 digits are covered only by the uniformity of the loops beyond the cut-off. That 769/114 retained digits suffice (longest halfway expansion has 768/113 significant digits) is arithmetic checked at design time, not by the verifier.",
    assumptions=[A_LEMIRE, A_CLINGER, A_BOUND, "MAX_DIGITS sufficiency (768 / 113 digit halfway expansions)"])
PROPERTY_META["C07"] = dict(
    level="proof",
    claim="round/pack proved for every subnormal shift, promotion, carry, infinity (C18); Eisel-Lemire / Bellerophon early-outs: zero significand => +0.0 and hopeless exponents => +0.0/+inf for ALL inputs, subnormal and overflow branches consistent with the product (tail contract, all q); exponent saturation in parse_number for ALL i32 exponents (no wrap); negative_digit_comp around b (bounded).",
    note="Exactness of the Lemire subnormal branch beyond consistency with its product rests on A-LEMIRE; thresholds 10^-343 < 2^-1075*2^-64 and 10^309 > 2^1024 are arithmetic facts stated in DESIGN.md.",
    assumptions=[A_LEMIRE, A_CLINGER, A_BOUND])
PROPERTY_META["C08"] = dict(
    level="proof",
    claim="Every unsafe site is behind an obligation whose pointer/bounds checks Kani discharges: power-table indexing (fast path: index <= 22/10 for ALL Numbers; int_pow_fast_path callers), StackVec primitives on every well-formed vector up to capacity 62 (push/pop/extend/resize/set_len), shl_limbs ptr::copy/write_bytes incl. the capacity edge, normalize; Lemire/Bellerophon table indexing for ALL (q,w) / Numbers; the string front-end on ALL byte strings <= 8.",
    note="Only memory-safety check classes count for this property; arbitrary (non-digit) bytes: the digit loops read bytes only through the caller's iterators (safe code); parse-level harnesses use digit bytes. Uninitialised-read detection relies on wf pre-states; -Z uninit-checks not enabled (cost).",
    assumptions=[A_BOUND])
PROPERTY_META["C09"] = dict(
    level="proof",
    claim="Round-to-nearest is monotone, so C09 is a corollary of C01/C02 (same obligations, same assumed links). No separate cross-path obligation exists: monotonicity across the fast/moderate/slow seams needs the numeric oracle that the SAT back end cannot provide.",
    note=CHAIN_NOTE, assumptions=[A_LEMIRE, A_CLINGER, A_IEEE, A_TIE, A_BOUND])
PROPERTY_META["C10"] = dict(
    level="proof",
    claim="Re-splitting digits between integer part, fraction part and exponent changes neither the Number nor the big-integer digits: parse_number == spec_parse_number and parse_mantissa == spec for every split of the same digit string (the spec depends only on the concatenated digits and e - fraction length), for all exponents; everything downstream is a function of those results (dispatch contract). Appending fraction zeros changes (w,q) to (w*10^k, q-k): equality then follows from correctness (C01) - conditional.",
    note="Bounded digit-count shapes; zero-appending is conditional on C01's assumed links.", assumptions=[A_LEMIRE, A_BOUND])
PROPERTY_META["C11"] = dict(
    level="proof",
    claim="Eisel-Lemire (all (q,w), f32+f64): shape, early-outs, product contract (uninterpreted multiplication), tail == RNE of a value within one unit of the product's top 64 bits for ALL q, EXACT correct rounding incl. ties for q in [0,27], declined estimates carry the product's top bits and exponent, truncated significand accepted only if w and w+1 agree. Bellerophon (all Numbers): shape, band soundness of error_is_accurate for all (mant, exp, errors<=64), normalize, mul against every table constant, power exponents. Tables and the log2 formula by Verus.",
    note="'Definite => correctly rounded' for q outside [0,27] (Lemire) and the error accounting (Bellerophon) are the assumed theorems A-LEMIRE / A-CLINGER: a change wrong ONLY there (e.g. MIN_EXPONENT_ROUND_TO_EVEN -4 -> -3) is not detected.",
    assumptions=[A_LEMIRE, A_CLINGER, A_TIE])
PROPERTY_META["C12"] = dict(
    level="proof",
    claim="Scalar layer proved for all inputs (scalar_add, scalar_mul == x*y+c exactly, 64/128-bit top-bits helpers). Vector operations checked against fixed-width reference naturals for operands of 1..4 limbs with scalar_mul replaced by its contract over an uninterpreted commutative product: small_add_from, small_mul, large_add_from, long_mul, large_mul, shl_bits, shl_limbs (incl. capacity edge), shl, hi64 + sticky over all lower limbs, bit_length; pow: every factor is an exact power of five and exponents sum to exp for every exp <= 1200; Bigint::pow dispatch; overflow of the 62-limb capacity reported as None.",
    note="BOUNDED in operand length (CBMC cannot close these loops at 62 limbs within budget; Verus cannot ingest them verbatim); compare/normalize in C13. Both storage back ends in the thorough tier (HeapVec via Kani's Vec model).",
    assumptions=[A_BOUND])
PROPERTY_META["C13"] = dict(
    level="proof",
    claim="Histories handled inductively: representation invariant wf (length <= 62, data[..length] initialised) and abstract view data[..length]; for EVERY wf pre-state (symbolic length up to 62, symbolic limbs) each safe operation (new, len, is_empty, capacity, deref, deref_mut, try_push, pop, try_extend, try_from, try_resize, normalize, is_normalized, from_u64, eq, cmp, partial_cmp) yields a wf post-state whose WHOLE view equals the reference operation's (frame included); failing try_* return None with the view unchanged.",
    note="try_extend / try_from / try_resize / normalize / cmp are bounded in the amount changed per call (<= 4 limbs, <= 8 limbs for cmp) at every pre-length; HeapVec delegates to Vec (Kani's model) and is exercised through the C12 obligations in alloc configurations.",
    assumptions=[A_BOUND])
PROPERTY_META["C19"] = dict(
    level="proof",
    claim="examples/simple.rs and fuzz/fuzz_targets/parse.rs are compiled verbatim as cfg(kani) modules; for EVERY byte string of length <= 8 (all 256 byte values): consumed prefix == longest match of the grammar, library called exactly once with trimmed digit runs satisfying its documented preconditions and the exponent value, sign applied once, suffix exactly the rest, nan/inf/infinity and empty match in the fuzz copy, no panic; parse_exponent saturates (10/11 digits in the thorough tier). Correct rounding of the delegated value is C01/C02.",
    note="Bounded in length (8 bytes); tests/integration_tests.rs and etc/correctness copies are textual copies of the fuzz front-end and are not separately compiled. The library call is replaced by a ghost recorder (stub).",
    assumptions=[A_BOUND, "C01/C02 for the value returned by the library"])

# tie window, both ends (product as ghost)
for t, win in (("f64", "[-4, 23]"), ("f32", "[-17, 10]")):
    K("c11_compute_float_tie_window_" + t, "lemire", C11L, "compute_float::<%s> with the product as ghost, every q INSIDE the tie window %s: a tie-shaped product (lo == 0, truncated bits exactly half, normal range) is rounded to the EVEN neighbour (one-sided on purpose: nothing is demanded outside the window or for lo == 1, where no exact tie exists)" % (t, win), LEM, features=LEM_CFG, zflags=("stubbing",), timeout=900)

# --------------------------------------------------------------------------- arithmetic facts (Verus compute)
X("verus_threshold_lemmas", "verus", _tables.make_runner(("thresholds",)), ["C07", "C11", "C06", "C04", "C01", "C02", "C09"],
  "number-theoretic side facts decided by computation: early-out thresholds of both moderate stages are right AND tight (10^-343 vs 2^-1075, 10^309 vs 2^1024, f32 analogues, Bellerophon +-350/310), tie-window bounds (5^23 < 2^54 < 5^24 ...), exact-product bound 5^27 < 2^64, fast-path limits, longest halfway expansions have 768 / 113 digits, capacity bounds of L-CAP",
  ["num::Float constants (SMALLEST/LARGEST_POWER_OF_TEN, *_ROUND_TO_EVEN, *_FAST_PATH, MAX_DIGITS)", "bigint::BIGINT_BITS"])

X("c12_verus_limb_chain_induction", "verus", _tables.make_runner(("induction",)), ["C12"],
  "UNBOUNDED induction over the scalar contracts (lemma over contracts, Verus): for EVERY vector length, if each limb step satisfies the contract of scalar_mul / scalar_add (out_i + 2^64 c_{i+1} == x_i y + c_i; obligations c12_scalar_mul / c12_scalar_add, proved by Kani for all u64 operands) and the steps are chained over all limbs in order, then the vector with the final carry pushed (or omitted when zero) is exactly val(x) * y + carry_in; pushing a limb adds limb * 2^(64 len); a trailing zero limb (normalize) keeps the value; k leading zero limbs (shl_limbs) multiply it by 2^(64k). This removes the DATA bound from the bounded small_mul / small_add_from obligations: what they still establish only up to their stated length is the loop STRUCTURE (each limb visited once, in order, carry threaded, final carry pushed), which does not depend on limb values.",
  ["bigint::small_mul", "bigint::small_add_from", "bigint::scalar_mul", "bigint::scalar_add", "bigint::normalize", "bigint::shl_limbs"],
  note="Pure mathematics over the contracts: no text of /repo enters this obligation, so no change to /repo can make it fail; it strengthens what the Kani obligations on the real functions imply and is never counted as a proof of those functions.")

# --------------------------------------------------------------------------- C13 (HeapVec, alloc configurations)
HV = "heapvec::HeapVec::"
for nm, b in (("c13_heap_ops_len0_1", "pre-lengths 0 and 1"), ("c13_heap_ops_len3", "pre-length 3")):
    K(nm, "heapvec", ["C13", "C05", "C12", "C04"], "HeapVec try_push / pop / try_extend / try_resize / normalize / is_normalized: contents equal the reference sequence, prefix unchanged, operations never fail (Vec grows), length <= capacity", [HV + "try_push", HV + "pop", HV + "try_extend", HV + "try_resize", HV + "normalize", HV + "is_normalized", HV + "try_from"], strength="bounded", bound=b + ", growth <= 2", features=["alloc", "compact_alloc"], timeout=900)
K("c12_heap_shl_limbs", "heapvec", ["C12", "C04", "C05", "C13"], "heap back end: new()/try_from give capacity >= 62; shl_limbs(x, n) with len + n <= 62 succeeds, moves limbs up by n and zero-fills", ["bigint::shl_limbs", HV + "new", HV + "try_from", HV + "capacity"], strength="bounded", bound="x of 2 limbs, 1 <= n <= 60", features=["alloc", "compact_alloc"], timeout=900)
K("c13_heap_eq_cmp", "heapvec", ["C13", "C05"], "HeapVec eq / cmp / partial_cmp / from_u64 on vectors of <= 2 limbs", [HV + "eq", HV + "cmp", HV + "partial_cmp", HV + "from_u64"], strength="bounded", bound="<= 2 limbs", features=["alloc", "compact_alloc"], timeout=900)
X("c08_unsafe_site_inventory", "static", _ss.unsafe_inventory, ["C08"], "every `unsafe` token in the real sources is listed in inventory/unsafe_sites.json with the obligation that covers it (a mismatch makes the check UNDECIDED: a new unsafe site must not pass silently)", ["crate-wide"], strength="proved")
K("c14_float_pow10_ondemand_libm", "num", ["C14", "C05", "C08"], "no_std+compact: the bundled libm gives powd(10, k) == 10^k exactly for k = 0..=22 and powf(10, k) == 10^k for k = 0..=10 (concrete exponents; CBMC evaluates the libm code, including its unchecked table indexing)", ["num::Float::pow_fast_path (f64/f32, no_std+compact)", "libm::powd", "libm::powf"], strength="proved", bound="the finite set of 23 + 11 calls the fast path can make", features=["nostd_compact"], timeout=900)

# negative_digit_comp: scaling plan and decision, all inputs (Bigint::pow as recorder)
for t in ("f64", "f32"):
    K("pslow_negative_plan_" + t, "slow", PSP, "negative_digit_comp::<%s> with Bigint::pow a pure recorder, ALL normalised estimates, ALL one-limb digit integers, ALL scales -4000 <= real_exp < 0: b+h = (2 m_b + 1, e_b - 1) from the truncated estimate; b+h scaled by 5^(-real_exp); with binary_exp = (e_b - 1) - real_exp the power 2^|binary_exp| goes to b+h if positive, to the digits if negative; result is b or the float above b exactly as the (recorded, unscaled) comparison says" % t, ["slow::negative_digit_comp", "slow::bh", "slow::b", "rounding::round", "rounding::round_down"], strength="proved", features=["default", "compact"], zflags=("stubbing",), timeout=1200, tier="quick" if t == "f64" else "thorough")
    # (pslow_negative_tie_*: the tie decision with a pure recorder took 10 min (f32) / crashed CBMC (f64): NOT registered; ties stay with pslow_negative_comp_*_tie)
