#!/usr/bin/env python3
"""
Driver library for the contract-based verification of minimal-lexical.

  assemble()   copy /repo's working tree to a scratch crate, add the cfg(kani)-only
               specification module, harness modules and contract attributes
  run_kani()   discharge a group of Kani obligations (one cargo-kani invocation, -j N)
  run_verus()  discharge Verus obligations (single generated file)
  replay       concrete playback of a Kani counterexample against the same sources

Exit-code policy (bin/check): 0 held, 1 VIOLATION, 2 UNDECIDED (tool limit, lost anchor,
timeout, compile error) -- an UNDECIDED run never prints a VIOLATION line.
"""
import hashlib
import json
import os
import re
import shutil
import subprocess
import sys
import tempfile
import time

VERIF = os.path.dirname(os.path.dirname(os.path.abspath(__file__)))
REPO = os.environ.get("VERIF_REPO", "/repo")
NCPU = int(os.environ.get("VERIF_JOBS", str(os.cpu_count() or 4)))

ENV = dict(os.environ)
ENV["CARGO_NET_OFFLINE"] = "true"
ENV.pop("RUSTFLAGS", None)
ENV.pop("CARGO_TARGET_DIR", None)

FEATURE_SETS = {
    "default": [],
    "compact": ["--features", "compact"],
    "alloc": ["--features", "alloc"],
    "compact_alloc": ["--features", "compact,alloc"],
    "nostd_compact": ["--no-default-features", "--features", "compact"],
    "nostd_compact_alloc": ["--no-default-features", "--features", "compact,alloc"],
}


class Undecided(Exception):
    pass


def log(*a):
    print(*a, file=sys.stderr, flush=True)


def sha256_file(p):
    h = hashlib.sha256()
    with open(p, "rb") as f:
        for chunk in iter(lambda: f.read(1 << 16), b""):
            h.update(chunk)
    return h.hexdigest()


# ---------------------------------------------------------------- assemble


FN_ANCHOR = r"^(\s*)(?:pub(?:\([a-z]+\))?\s+)?(?:const\s+)?(?:unsafe\s+)?fn\s+%s\b"


def assemble(scratch=None):
    """Copy /repo's working tree and add the cfg(kani)-only verification text.

    Nothing of the real code is rewritten or dropped.  Returns (dir, info)."""
    if scratch is None:
        scratch = tempfile.mkdtemp(prefix="verif-ml-")
    info = {"sources_sha256": {}, "added": [], "scratch": scratch}
    for rel in ["Cargo.toml", "Cargo.lock"]:
        src = os.path.join(REPO, rel)
        if os.path.exists(src):
            shutil.copy2(src, os.path.join(scratch, rel))
    for rel in ["src", "examples", "fuzz/fuzz_targets", "tests"]:
        src = os.path.join(REPO, rel)
        if os.path.isdir(src):
            shutil.copytree(src, os.path.join(scratch, rel), dirs_exist_ok=True)
    for root, _, files in os.walk(os.path.join(scratch, "src")):
        for fn in sorted(files):
            p = os.path.join(root, fn)
            info["sources_sha256"][os.path.relpath(p, scratch)] = sha256_file(p)
    for rel in ["examples/simple.rs", "fuzz/fuzz_targets/parse.rs"]:
        p = os.path.join(scratch, rel)
        if os.path.exists(p):
            info["sources_sha256"][rel] = sha256_file(p)
    os.makedirs(os.path.join(scratch, ".cargo"), exist_ok=True)
    with open(os.path.join(scratch, ".cargo", "config.toml"), "w") as f:
        f.write("[net]\noffline = true\n")

    # 1. specification module (cfg(kani) only)
    shutil.copy2(os.path.join(VERIF, "spec", "verif_spec.rs"), os.path.join(scratch, "src", "verif_spec.rs"))
    librs = os.path.join(scratch, "src", "lib.rs")
    if not os.path.exists(librs):
        raise Undecided("anchor-lost src/lib.rs")
    shutil.copy2(os.path.join(VERIF, "spec", "verif_spy.rs"), os.path.join(scratch, "src", "verif_spy.rs"))
    with open(librs, "a") as f:
        f.write("\n#[cfg(kani)]\npub mod verif_spec;\n#[cfg(kani)]\npub mod verif_spy;\n")
    info["added"].append("src/verif_spec.rs, src/verif_spy.rs (cfg(kani) modules)")

    # 1b. the shipped string front-ends become cfg(kani)-only modules of the crate (C19)
    fronts = [("examples/simple.rs", "verif_front_simple", "front_simple.rs"),
              ("fuzz/fuzz_targets/parse.rs", "verif_front_fuzz", "front_fuzz.rs")]
    with open(librs, "a") as f:
        f.write("\n#[cfg(kani)]\nextern crate self as minimal_lexical;\n")
    for rel, modname, hfile in fronts:
        src = os.path.join(scratch, rel)
        hpath = os.path.join(VERIF, "kani_front", hfile)
        if not os.path.exists(src):
            raise Undecided("anchor-lost %s" % rel)
        text = open(src).read()
        # the ONLY thing dropped: the line `extern crate minimal_lexical;` (a library cannot name
        # itself as an external crate; the alias above provides the same path)
        text2 = re.sub(r"(?m)^extern crate minimal_lexical;\s*$", "// (dropped for in-crate verification) extern crate minimal_lexical;", text)
        body = open(hpath).read() if os.path.exists(hpath) else ""
        body = body.replace('include!("FRONT_COMMON");', open(os.path.join(VERIF, "kani_front", "front_common.inc")).read())
        dst = os.path.join(scratch, "src", modname + ".rs")
        with open(dst, "w") as f:
            f.write(text2)
            f.write("\n#[cfg(kani)]\n#[allow(unused_imports, dead_code, unused_variables, unused_mut)]\nmod verif_kani {\n    use super::*;\n")
            f.write(body)
            f.write("\n}\n")
        with open(librs, "a") as f:
            f.write("#[cfg(kani)]\n#[allow(dead_code, unused)]\npub mod %s;\n" % modname)
        info["added"].append("src/%s.rs = verbatim copy of %s (minus its `extern crate minimal_lexical;` line) + mod verif_kani" % (modname, rel))

    # 2. contract attributes in front of the named functions
    cdir = os.path.join(VERIF, "contracts")
    for cf in sorted(os.listdir(cdir)) if os.path.isdir(cdir) else []:
        if not cf.endswith(".json"):
            continue
        for c in json.load(open(os.path.join(cdir, cf))):
            path = os.path.join(scratch, "src", c["file"])
            if not os.path.exists(path):
                raise Undecided("anchor-lost src/%s" % c["file"])
            text = open(path).read()
            pat = re.compile(FN_ANCHOR % re.escape(c["fn"]), re.M)
            ms = list(pat.finditer(text))
            if "nth" in c:
                ms = ms[c["nth"] : c["nth"] + 1]
            if len(ms) != 1:
                raise Undecided("anchor-lost fn %s in src/%s (%d matches)" % (c["fn"], c["file"], len(ms)))
            m = ms[0]
            indent = m.group(1)
            attrs = "".join("%s#[cfg_attr(kani, %s)]\n" % (indent, a) for a in c["attrs"])
            text = text[: m.start()] + attrs + text[m.start() :]
            open(path, "w").write(text)
            info["added"].append("contract attrs on %s::%s" % (c["file"], c["fn"]))

    # 3. harness modules appended to the end of the source file they verify
    kdir = os.path.join(VERIF, "kani")
    for hf in sorted(os.listdir(kdir)):
        if not hf.endswith(".rs"):
            continue
        target = os.path.join(scratch, "src", hf)
        if not os.path.exists(target):
            raise Undecided("anchor-lost src/%s" % hf)
        body = open(os.path.join(kdir, hf)).read()
        # optional sections `//@if-fn NAME ... //@endif` are kept only if the real file defines fn NAME
        real = open(target).read()

        def _opt(m):
            if re.search(FN_ANCHOR % re.escape(m.group(1)), real, re.M):
                return m.group(2)
            info.setdefault("dropped_sections", []).append("%s: fn %s not found" % (hf, m.group(1)))
            return ""
        body = re.sub(r"//@if-fn (\w+)\n(.*?)//@endif\n", _opt, body, flags=re.S)
        with open(target, "a") as f:
            f.write("\n#[cfg(kani)]\n#[allow(unused_imports, dead_code, unused_variables, unused_mut)]\nmod verif_kani {\n    use super::*;\n")
            f.write(body)
            f.write("\n}\n")
        info["added"].append("src/%s: mod verif_kani (cfg(kani))" % hf)
    return scratch, info


# ---------------------------------------------------------------- kani


def run_kani(scratch, harnesses, features="default", zflags=(), timeout_s=600, jobs=None, extra=()):
    """Run cargo kani on fully-qualified harness names.  Returns dict name -> result."""
    jobs = jobs or min(NCPU, max(1, len(harnesses)))
    out_json = os.path.join(scratch, "kani-out-%s-%d.json" % (features, int(time.time() * 1000) % 10**9))
    cmd = ["cargo", "kani", "-Z", "unstable-options", "-j", str(jobs), "--output-format", "terse",
           "--export-json", out_json, "--harness-timeout", "%ds" % timeout_s, "--exact"]
    for z in zflags:
        cmd += ["-Z", z]
    cmd += FEATURE_SETS[features]
    cmd += list(extra)
    for h in harnesses:
        cmd += ["--harness", h]
    t0 = time.time()
    try:
        p = subprocess.run(cmd, cwd=scratch, env=ENV, stdout=subprocess.PIPE, stderr=subprocess.STDOUT,
                           text=True, timeout=timeout_s * (1 + (len(harnesses) - 1) // jobs) + 600)
        out = p.stdout
    except subprocess.TimeoutExpired as e:
        out = (e.stdout or b"").decode("utf8", "replace") if isinstance(e.stdout, bytes) else (e.stdout or "")
        raise Undecided("cargo-kani overall timeout\n" + out[-2000:])
    wall = time.time() - t0
    results = {}
    if not os.path.exists(out_json):
        # compile error or tool crash
        tail = "\n".join(l for l in out.splitlines() if not l.startswith("warning"))[-6000:]
        if "error" in out and ("could not compile" in out or "error[" in out or "error:" in out):
            raise Undecided("kani-compile-error (a function a harness depends on changed shape?)\n" + tail)
        raise Undecided("kani-no-output\n" + tail)
    d = json.load(open(out_json))
    stats = {c["harness_id"]: (c.get("cbmc_stats") or {}) for c in d.get("cbmc", [])}
    errs = {e["harness_id"]: e for e in d.get("error_details", [])}
    for r in d["verification_results"]["results"]:
        hid = r["harness_id"]
        checks = r.get("checks", [])
        failed = [c for c in checks if c["status"] in ("Failure", "FAILURE")]
        covers = [c for c in checks if c.get("category") == "cover" or c["status"] in ("Satisfied", "Unsatisfiable", "SATISFIED", "UNSATISFIABLE")]
        uncovered = [c for c in covers if c["status"].lower() in ("unsatisfiable", "unreachable")]
        undet = [c for c in checks if c["status"].lower() in ("undetermined",)]
        if errs.get(hid, {}).get("exit_status") == "timeout":
            r["status"] = "Timeout"
        results[hid] = {
            "status": r["status"],
            "duration_s": r.get("duration_ms", 0) / 1000.0,
            "n_checks": len(checks) - len(covers),
            "n_covers": len(covers),
            "failed": failed,
            "uncovered": uncovered,
            "undetermined": undet,
            "solver_s": stats.get(hid, {}).get("runtime_solver_s"),
            "vccs": stats.get(hid, {}).get("vccs_generated"),
        }
    for h in harnesses:
        if h not in results:
            # timeouts / crashes are reported only in the text output
            m = re.search(re.escape(h) + r".{0,400}", out, re.S)
            results[h] = {"status": "Missing", "duration_s": None, "n_checks": 0, "n_covers": 0, "failed": [],
                          "uncovered": [], "undetermined": [], "note": (m.group(0) if m else out[-1500:])}
    return results, wall, " ".join(cmd), out


def kani_playback(scratch, harness, features="default", zflags=(), timeout_s=600, extra=(), native=True):
    """Re-run one failing harness with concrete playback, insert the generated unit test into
    the harness module and execute it natively against the same sources."""
    cmd = ["cargo", "kani", "-Z", "unstable-options", "--output-format", "terse", "-Z", "concrete-playback",
           "--concrete-playback=print", "--harness-timeout", "%ds" % timeout_s, "--exact", "--harness", harness]
    for z in zflags:
        cmd += ["-Z", z]
    cmd += FEATURE_SETS[features] + list(extra)
    try:
        p = subprocess.run(cmd, cwd=scratch, env=ENV, stdout=subprocess.PIPE, stderr=subprocess.STDOUT, text=True,
                           timeout=timeout_s + 600)
    except subprocess.TimeoutExpired:
        return None, "playback generation timed out", ""
    out = p.stdout
    tests = re.findall(r"```\n(.*?)```", out, re.S)
    # keep only tests generated for failed (non-cover) checks
    tests = [t for t in tests if "Check for `cover`" not in t]
    if not tests:
        return None, "no concrete test produced by Kani", out[-3000:]
    test = tests[0]
    if not native:
        return test, "", ""
    m = re.search(r"fn (kani_concrete_playback_\w+)", test)
    tname = m.group(1)
    # insert into the harness module of the file that defines the harness
    modfile = harness.split("::")[0] + ".rs"
    path = os.path.join(scratch, "src", modfile)
    text = open(path).read()
    if tname not in text:  # the same counterexample may already have been inserted for another configuration
        idx = text.rstrip().rfind("}")
        text = text[:idx] + "\n" + test + "\n" + text[idx:]
        open(path, "w").write(text)
    cmd2 = ["cargo", "kani", "playback", "-Z", "concrete-playback"] + FEATURE_SETS[features] + ["--", tname]
    try:
        p2 = subprocess.run(cmd2, cwd=scratch, env=dict(ENV, RUST_BACKTRACE="0"), stdout=subprocess.PIPE, stderr=subprocess.STDOUT, text=True,
                            timeout=900)
        nat = p2.stdout
    except subprocess.TimeoutExpired:
        nat = "native playback timed out"
    nat = "\n".join(l for l in nat.splitlines() if not re.match(r"^\s*(warning|\||=|-->|\d+ \|)", l) and l.strip())
    return test, nat[-4000:], " ".join(cmd2)


# ---------------------------------------------------------------- verus


def run_verus(path, timeout_s=900, extra=()):
    cmd = ["verus", path, "--output-json", "--time", "--num-threads", str(NCPU)] + list(extra)
    t0 = time.time()
    try:
        p = subprocess.run(cmd, cwd=os.path.dirname(path), env=ENV, stdout=subprocess.PIPE, stderr=subprocess.PIPE,
                           text=True, timeout=timeout_s)
    except subprocess.TimeoutExpired:
        raise Undecided("verus timeout on %s" % path)
    wall = time.time() - t0
    try:
        j = json.loads(p.stdout[p.stdout.index("{"):])
    except Exception:
        raise Undecided("verus produced no JSON\n" + p.stdout[-2000:] + p.stderr[-4000:])
    return j, p.stderr, wall, " ".join(cmd)
