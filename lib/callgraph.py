"""C15: allocation frame check on Kani's GOTO program (static, all inputs, no unwinding)."""
import glob
import os
import re
import subprocess
import time

from verif import ENV, FEATURE_SETS, Undecided

ALLOC_PAT = re.compile(r"(__rust_alloc|__rust_realloc|__rust_dealloc|__rust_alloc_zeroed|exchange_malloc|(?<![A-Za-z_])malloc|(?<![A-Za-z_])calloc|(?<![A-Za-z_])realloc|_5alloc|5alloc5alloc|RawVec|alloc..Global)")


def closure(edges, root):
    seen = {root}
    stack = [root]
    while stack:
        n = stack.pop()
        for m in edges.get(n, ()):
            if m not in seen:
                seen.add(m)
                stack.append(m)
    return seen


def analyse(scratch, features, harness_short):
    tdir = os.path.join(scratch, "target-cg-" + features)
    cmd = ["cargo", "kani", "-Z", "unstable-options", "--only-codegen", "--target-dir", tdir, "--harness", harness_short] + FEATURE_SETS[features]
    t0 = time.time()
    p = subprocess.run(cmd, cwd=scratch, env=ENV, stdout=subprocess.PIPE, stderr=subprocess.STDOUT, text=True, timeout=900)
    outs = [f for f in glob.glob(os.path.join(tdir, "**", "*%s.out" % harness_short), recursive=True) if not f.endswith(".symtab.out")]
    if len(outs) != 1:
        raise Undecided("no GOTO binary for %s [%s]\n%s" % (harness_short, features, p.stdout[-1500:]))
    q = subprocess.run(["goto-instrument", "--call-graph", outs[0]], stdout=subprocess.PIPE, stderr=subprocess.PIPE, text=True, timeout=600)
    edges = {}
    n_edges = 0
    for l in q.stdout.splitlines():
        if " -> " in l:
            a, b = l.split(" -> ", 1)
            edges.setdefault(a.strip(), set()).add(b.strip())
            n_edges += 1
    roots = [a for a in edges if a.endswith(harness_short) or harness_short in a and "verif_kani" in a and "closure" not in a]
    roots = [a for a in roots if a.endswith(harness_short)]
    if len(roots) != 1:
        raise Undecided("entry symbol for %s not found in the call graph (%d candidates)" % (harness_short, len(roots)))
    reach = closure(edges, roots[0])
    hits = sorted(x for x in reach if ALLOC_PAT.search(x))
    crate_fns = sorted(x for x in reach if "15minimal_lexical" in x and "verif_" not in x)
    return {"edges": n_edges, "reachable": len(reach), "alloc_hits": hits, "cmd": " ".join(cmd) + " ; goto-instrument --call-graph <harness>.out",
            "wall": time.time() - t0, "crate_functions_reached": len(crate_fns)}


def make_runner(features, harness_short, expect_alloc):
    def run(o, tier, scratch):
        r = analyse(scratch, features, harness_short)
        ent = {"cmd": r["cmd"], "duration_s": round(r["wall"], 2), "n_checks": r["reachable"],
               "counts": {"call_graph_edges": r["edges"], "functions_reachable_from_entry": r["reachable"],
                          "crate_functions_reached": r["crate_functions_reached"], "allocator_symbols_reached": len(r["alloc_hits"])}}
        if r["crate_functions_reached"] < 20:
            raise Undecided("vacuity guard: only %d crate functions reachable from the entry point" % r["crate_functions_reached"])
        if expect_alloc:
            if r["alloc_hits"]:
                ent["status"] = "ok"
            else:
                raise Undecided("vacuity guard: with the alloc feature the closure must contain an allocator entry, none found")
        else:
            if r["alloc_hits"]:
                ent.update(status="fail", has_input=False,
                           detail="allocator entry points reachable from parse_float in the call graph of the GOTO program [%s]:\n  %s\n"
                                  "(static over-approximation for all inputs: no single failing input; every input that takes the listed call path allocates)"
                                  % (features, "\n  ".join(r["alloc_hits"][:20])))
            else:
                ent["status"] = "ok"
        return ent
    return run
