#!/usr/bin/env python3
"""Regenerate /verif/MANIFEST.json from the obligation registry (so the two cannot drift)."""
import json, os, sys
VERIF = os.path.dirname(os.path.dirname(os.path.abspath(__file__)))
sys.path.insert(0, os.path.join(VERIF, "lib"))
import obligations as OB

props = [json.loads(l) for l in open(os.path.join(VERIF, "properties.jsonl"))]
checks = []
na = []
for p in props:
    pid = p["id"]
    meta = OB.PROPERTY_META.get(pid)
    if pid in OB.NOT_APPLICABLE:
        na.append({"property_id": pid, "reason": OB.NOT_APPLICABLE[pid]})
        continue
    if not meta or not OB.for_property(pid, "thorough"):
        na.append({"property_id": pid, "reason": "not yet claimed: no obligations registered in this revision of /verif"})
        continue
    checks.append({
        "property_id": pid,
        "quick_cmd": "bin/check %s --tier quick" % pid,
        "thorough_cmd": "bin/check %s --tier thorough" % pid,
        "evidence_file": "evidence/%s.json" % pid,
        "replay_cmd_template": "bin/check --replay {path}",
        "engine": "contracts",
        "level_claimed": {"category": meta.get("level", "proof"), "text": meta["claim"], "design_ref": meta.get("design_ref", "DESIGN.md section 4/" + pid)},
        "level_note": meta["note"],
        "technique": meta.get("technique", "contract-based deductive verification (Kani function/harness contracts on the real code + Verus lemmas)"),
    })
m = {
    "version": 1,
    "setup_cmd": "bin/setup",
    "hooks": {
        "guard": "cfg(kani) (set only by cargo-kani inside the per-run scratch copy; nothing is committed to /repo)",
        "enable": "bin/check copies /repo's working tree to a scratch dir, appends #[cfg(kani)] harness modules / contract attributes, runs cargo kani; Verus runs on literals extracted from /repo/src/table_*.rs",
        "baseline_off_cmd": "cd /repo && cargo test --workspace --no-fail-fast --offline",
        "source_commits": [],
        "add_only": True,
    },
    "engines": [
        {"name": "contracts", "path": "bin/check", "serves_properties": [c["property_id"] for c in checks],
         "kind_free_text": "Kani 0.68/CBMC 6.11 harness contracts on the real code (scratch copy + cfg(kani) modules), Verus 0.2026.09.13 for table constants and arithmetic lemmas, goto-instrument call graph for the allocation frame"},
    ],
    "checks": checks,
    "not_applicable": na,
    "notes": "exit 2 = UNDECIDED (tool limit / lost anchor), never accompanied by a VIOLATION line. Strength of every obligation (proved / capacity / bounded) is in evidence/<id>.json coverage.samples and by_strength.",
}
json.dump(m, open(os.path.join(VERIF, "MANIFEST.json"), "w"), indent=1)
print("checks:", [c["property_id"] for c in checks], "n/a:", [x["property_id"] for x in na])
