#!/usr/bin/env python3
"""Write seeded/INDEX.md from seeded/*/meta.json + result.json."""
import json, os
V = os.path.dirname(os.path.dirname(os.path.abspath(__file__)))
rows = []
for n in sorted(os.listdir(os.path.join(V, "seeded"))):
    d = os.path.join(V, "seeded", n)
    if not os.path.exists(os.path.join(d, "meta.json")):
        continue
    m = json.load(open(os.path.join(d, "meta.json")))
    r = json.load(open(os.path.join(d, "result.json"))) if os.path.exists(os.path.join(d, "result.json")) else {"checks": {}}
    first = json.load(open(os.path.join(d, "result_first.json"))) if os.path.exists(os.path.join(d, "result_first.json")) else None
    for prop, c in r["checks"].items():
        fv = (first["checks"].get(prop, {}).get("verdict", "") if first else c["verdict"])
        rows.append((n, prop, fv, c["verdict"], ", ".join(c["violated_obligations"][:4]) or "-", r.get("mode", {}).get(prop, ""), m.get("summary", "")[:160].replace("|", "/")))
    if not r["checks"]:
        rows.append((n, m["property"], "not run", "not run", "-", "", m.get("summary", "")[:160].replace("|", "/")))
with open(os.path.join(V, "seeded", "INDEX.md"), "w") as f:
    f.write("# Seeded changes (written by independent sub-agents from the property text only)\n\n"
            "Each directory holds `patch.diff`, `demo.rs` (fails with the patch, passes without), `meta.json` (incl. my own\n"
            "re-confirmation under `confirmed`) and `result.json` (verdict of `bin/seedcheck`: the patch is applied to a scratch copy of\n"
            "/repo and the check of the broken property is run on it; `targeted` = an obligation of that check was run alone and failed,\n"
            "which decides `caught`; a targeted pass falls through to the complete check).\n\n"
            "`first verdict` is the verdict of the checks as they stood when the seed arrived (complete check of the property);\n"
            "`verdict` is the current one, after the strengthening described in DESIGN.md section 7.2.\n\n"
            "| seed | property | first verdict | verdict | violated obligations | mode | change |\n|---|---|---|---|---|---|---|\n")
    for r in rows:
        f.write("| %s | %s | %s | %s | %s | %s | %s |\n" % r)
    n_c = sum(1 for r in rows if r[3] == "caught")
    n_f = sum(1 for r in rows if r[2] == "caught")
    f.write("\n%d of %d seeded changes caught by the check of the property they break (%d at first sight, i.e. by the checks as they stood before the strengthening that the seed prompted; see result_first.json and DESIGN.md 7.2).\n" % (n_c, len(rows), n_f))
print(len(rows))
