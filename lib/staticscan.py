"""C16 (frame, syntactic part): the crate owns no mutable global state.
Scans the scratch copy of /repo/src (comments stripped) for every construct that can hold state
across calls or be shared between threads."""
import os
import re

from verif import Undecided

PATTERNS = [r"\bstatic\s+mut\b", r"\bUnsafeCell\b", r"\bCell\s*<", r"\bRefCell\b", r"\bAtomic[A-Z]\w*\b", r"\bthread_local!",
            r"\blazy_static!", r"\bOnceCell\b", r"\bOnceLock\b", r"\bLazyLock\b", r"\bLazyCell\b", r"\bMutex\b", r"\bRwLock\b",
            r"\bstatic\s+ref\b"]
# fpu.rs manipulates the x87 control word (32-bit x86 + `nightly` only): out of scope on x86-64, listed as assumption
SKIP_FILES = {"fpu.rs", "verif_spec.rs", "verif_spy.rs", "verif_front_simple.rs", "verif_front_fuzz.rs"}


def strip(text):
    text = re.sub(r"//[^\n]*", "", text)
    text = re.sub(r"/\*.*?\*/", "", text, flags=re.S)
    return text


def run(o, tier, scratch):
    src = os.path.join(scratch, "src")
    hits = []
    nfiles = 0
    statics = 0
    for fn in sorted(os.listdir(src)):
        if not fn.endswith(".rs") or fn in SKIP_FILES:
            continue
        nfiles += 1
        text = open(os.path.join(src, fn)).read()
        # only the real code: cut the appended cfg(kani) harness module
        cut = text.find("\n#[cfg(kani)]\n#[allow(unused_imports")
        if cut >= 0:
            text = text[:cut]
        text = strip(text)
        statics += len(re.findall(r"\bstatic\s+[A-Z_]+\s*:", text))
        for p in PATTERNS:
            for m in re.finditer(p, text):
                line = text.count("\n", 0, m.start()) + 1
                hits.append("src/%s:%d: %s" % (fn, line, m.group(0)))
    if nfiles < 10:
        raise Undecided("vacuity guard: only %d source files scanned" % nfiles)
    ent = {"cmd": "python3 lib/staticscan.py (regex scan of the scratch copy of /repo/src)", "duration_s": 0.0, "n_checks": nfiles * len(PATTERNS),
           "counts": {"files_scanned": nfiles, "patterns": len(PATTERNS), "immutable_statics_seen": statics, "hits": len(hits)}}
    if hits:
        ent.update(status="fail", has_input=False, detail="mutable / interior-mutable global state found in the crate:\n  " + "\n  ".join(hits[:20]) +
                   "\n(static frame violation: every call sequence / interleaving that reaches the listed state can observe earlier calls)")
    else:
        ent["status"] = "ok"
    return ent


def unsafe_inventory(o, tier, scratch):
    """C08: every `unsafe` token of the real sources is in the inventory (contracts/unsafe_sites.json)."""
    import json
    from verif import VERIF
    inv = json.load(open(os.path.join(VERIF, "inventory", "unsafe_sites.json")))
    src = os.path.join(scratch, "src")
    found = {}
    for fn in sorted(os.listdir(src)):
        if not fn.endswith(".rs") or fn.startswith("verif_"):
            continue
        text = open(os.path.join(src, fn)).read()
        cut = text.find("\n#[cfg(kani)]\n#[allow(unused_imports")
        if cut >= 0:
            text = text[:cut]
        n = len(re.findall(r"\bunsafe\b", strip(text)))
        if n:
            found["src/" + fn] = n
    diffs = []
    inv = {k: v for k, v in inv.items() if isinstance(v, dict)}
    for k in sorted(set(found) | set(inv)):
        a, b = found.get(k, 0), (inv.get(k) or {}).get("count", 0)
        if a != b:
            diffs.append("%s: %d unsafe tokens, inventory has %d" % (k, a, b))
    if diffs:
        raise Undecided("new-unsafe-site (inventory mismatch: a new or removed unsafe site has no covering obligation assigned): " + "; ".join(diffs))
    return {"status": "ok", "cmd": "python3 lib/staticscan.py unsafe_inventory", "duration_s": 0.0, "n_checks": sum(found.values()),
            "counts": {"unsafe_tokens": sum(found.values()), "files": len(found)}}
