"""Property-level orchestration: run obligations, report violations, write evidence."""
import json
import os
import re
import shutil
import sys
import time

import verif
import obligations as OB
from verif import Undecided, VERIF, log

EVID = os.path.join(VERIF, "evidence")
REPLAYS = os.path.join(VERIF, "replays")
KNOWN = os.path.join(VERIF, "known_findings.txt")


def load_known():
    """Lines `finding: property=<id> obligation=<ob> match=<text>`; `fixed:` lines suppress nothing."""
    out = []
    if os.path.exists(KNOWN):
        for l in open(KNOWN):
            l = l.strip()
            if l.startswith("finding:"):
                kv = dict(re.findall(r"(\w+)=((?:\"[^\"]*\")|\S+)", l))
                out.append({k: v.strip('"') for k, v in kv.items()} | {"line": l})
    return out


def scan_trusted():
    """Mechanical scan of /verif for every assumption-introducing construct."""
    pats = ["kani::assume", "kani::stub", "stub_verified", "external_body", "assume(", "admit(", "assume_specification",
            "#[verifier::external", "kani::any_where"]
    counts = {}
    for sub in ["kani", "spec", "verus", "contracts", "harness_crates"]:
        d = os.path.join(VERIF, sub)
        for root, _, files in os.walk(d):
            for fn in files:
                if not fn.endswith((".rs", ".json", ".py")):
                    continue
                try:
                    txt = open(os.path.join(root, fn)).read()
                except Exception:
                    continue
                for p in pats:
                    n = txt.count(p)
                    if n:
                        counts[p] = counts.get(p, 0) + n
    return ["scan: %d x `%s` in /verif harness/spec text (preconditions of contracts and listed stubs)" % (n, p)
            for p, n in sorted(counts.items())]


def write_replay(prop, ob, body):
    d = os.path.join(REPLAYS, prop)
    os.makedirs(d, exist_ok=True)
    path = os.path.join(d, ob["id"] + ".replay.txt")
    with open(path, "w") as f:
        f.write(body)
    return path


def check_property(prop, tier, seed, only=None, keep=False, write_evidence=True):
    t0 = time.time()
    obs = OB.for_property(prop, tier)
    if only:
        obs = [o for o in obs if only in o["id"]]
    if not obs:
        raise Undecided("no obligations registered for %s" % prop)
    meta = OB.PROPERTY_META.get(prop, {})
    level = meta.get("level", "proof")
    results = {}  # ob id -> dict(status=ok|fail|undecided, ...)
    cmds = []
    scratch = None
    info = {}
    undecided = []
    try:
        kani_obs = [o for o in obs if o["engine"] == "kani"]
        scratch, info = verif.assemble()
        # ---- Kani groups
        groups = {}
        for o in kani_obs:
            feats = OB.features_for(prop, o, tier)
            for ft in feats:
                groups.setdefault((ft, tuple(o.get("zflags", ())), o.get("group", "")), []).append(o)
        def run_group(item):
            (ft, zf, grp), gobs = item
            tmo = max(o["timeout"] for o in gobs) * (3 if tier == "thorough" else 1)
            names = [o["harness"] for o in gobs]
            # oversubscribe rather than leave cores idle when a group finishes early
            jobs = max(2, min(len(names), max(verif.NCPU // 2, (verif.NCPU * len(names)) // max(1, total_h) + 1)))
            jobs = min(jobs, min(o.get("jobs_cap", verif.NCPU) for o in gobs))
            log("[kani] %s %s %s: %d harnesses (timeout %ds, -j %d)" % (ft, " ".join(zf), grp, len(names), tmo, jobs))
            tdir = os.path.join(scratch, "target-%s-%s-%s" % (ft, "_".join(zf), grp))
            try:
                return item, verif.run_kani(scratch, names, features=ft, zflags=zf, timeout_s=tmo, jobs=jobs,
                                            extra=("--target-dir", tdir)), None
            except Undecided as e:
                return item, None, e

        total_h = sum(len(g) for g in groups.values())
        from concurrent.futures import ThreadPoolExecutor
        with ThreadPoolExecutor(max_workers=max(1, len(groups))) as ex:
            outs = list(ex.map(run_group, sorted(groups.items(), key=lambda kv: kv[0])))
        for ((ft, zf, grp), gobs), rr, err in outs:
            if err is not None:
                for o in gobs:
                    results[(o["id"], ft)] = {"status": "undecided", "why": str(err)[:3000], "ob": o, "features": ft}
                undecided.append(str(err)[:3000])
                continue
            res, wall, cmd, out = rr
            cmds.append(cmd)
            for o in gobs:
                r = res[o["harness"]]
                key = (o["id"], ft)
                ent = {"ob": o, "features": ft, "zflags": zf, "duration_s": r["duration_s"], "n_checks": r["n_checks"],
                       "n_covers": r["n_covers"], "solver_s": r.get("solver_s")}
                if r["status"] == "Success" and not r["failed"]:
                    if r["n_checks"] < 1:
                        ent.update(status="undecided", why="vacuous: harness generated no checks")
                    elif r["uncovered"]:
                        ent.update(status="undecided", why="vacuity guard: cover not satisfiable: %s" %
                                   [c["description"] for c in r["uncovered"]])
                    else:
                        ent.update(status="ok")
                elif r["failed"]:
                    fails = r["failed"]
                    # unwinding-assertion failures mean the bound was too small: undecided, not violated
                    real = [c for c in fails if "unwinding assertion" not in c.get("description", "")]
                    if o.get("only_categories"):
                        real = [c for c in real if c.get("category") in o["only_categories"]
                                or any(k in c.get("description", "") for k in o.get("only_desc", []))]
                        if not real and fails:
                            ent.update(status="ok", note="only non-memory-safety checks failed (clean panics): %d" % len(fails))
                            results[key] = ent
                            continue
                    if real:
                        ent.update(status="fail", failed=[{k: c.get(k) for k in ("description", "function", "location", "category")}
                                                          for c in real[:8]])
                    else:
                        ent.update(status="undecided", why="unwinding bound exceeded: %s" % fails[0].get("location"))
                else:
                    ent.update(status="undecided", why="kani status %s: %s" % (r["status"], str(r.get("note", ""))[-600:]))
                results[key] = ent
        # ---- Verus / static obligations
        for o in obs:
            if o["engine"] in ("verus", "static"):
                log("[%s] %s" % (o["engine"], o["id"]))
                try:
                    ent = o["run"](o, tier, scratch)
                except Undecided as e:
                    ent = {"status": "undecided", "why": str(e)[:3000]}
                ent.update(ob=o, features="-")
                if "cmd" in ent:
                    cmds.append(ent["cmd"])
                results[(o["id"], "-")] = ent

        # ---- report
        known = load_known()
        violations = []
        known_hits = []
        n_playbacks = 0
        MAX_PLAYBACKS = int(os.environ.get("VERIF_MAX_PLAYBACKS", "3"))
        for key, ent in sorted(results.items()):
            o = ent["ob"]
            if ent["status"] == "undecided":
                undecided.append("%s[%s]: %s" % (o["id"], ent["features"], ent.get("why", "")))
            if ent["status"] != "fail":
                continue
            body = ["REPLAY FILE  property=%s  obligation=%s  features=%s" % (prop, o["id"], ent["features"]),
                    "contract: %s" % o["contract"], "engine: %s" % o["engine"], ""]
            no_input = True
            if o["engine"] == "kani":
                body.append("failed checks reported by Kani/CBMC:")
                for c in ent["failed"]:
                    body.append("  - %s  [%s] in %s at %s" % (c["description"], c["category"], c["function"], c["location"]))
                stubbed = "stubbing" in ent.get("zflags", ())
                if n_playbacks >= MAX_PLAYBACKS:
                    body += ["", "counterexample generation skipped: %d obligations of this run already carry a replayed counterexample" % MAX_PLAYBACKS,
                             "(run `/verif/bin/check %s --only %s` to obtain this one)" % (prop, o["id"])]
                    path = write_replay(prop, o, "\n".join(body) + "\n")
                    violations.append((o, path, True, "; ".join(c["description"] for c in ent.get("failed", []))))
                    continue
                n_playbacks += 1
                test, nat, pcmd = verif.kani_playback(scratch, o["harness"], features=ent["features"], zflags=ent.get("zflags", ()),
                                                      timeout_s=o["timeout"] * 2, native=not stubbed)
                if test and stubbed:
                    body += ["", "counterexample found by Kani/CBMC (values of the harness's symbolic inputs, in order of kani::any() calls).",
                             "This obligation replaces a callee by its contract (kani::stub): the counterexample is expressed over the",
                             "callee's contracted result (e.g. the 128-bit product), not over a concrete caller input, so it cannot be",
                             "executed natively against the real callee:", test]
                elif test:
                    no_input = False
                    body += ["", "counterexample (Kani concrete playback unit test; insert into `mod verif_kani` of the assembled",
                             "src/%s.rs and run `%s`):" % (o["harness"].split("::")[0], pcmd), test, "",
                             "native execution of that test against the real code (scratch copy of /repo working tree):", nat]
                else:
                    body += ["", "no concrete input could be produced: %s" % nat]
                body += ["", "to re-run: /verif/bin/check %s --only %s" % (prop, o["id"])]
            else:
                body.append(ent.get("detail", ""))
                no_input = not ent.get("has_input", False)
            desc = "; ".join(c["description"] for c in ent.get("failed", [])) if o["engine"] == "kani" else ent.get("detail", "")[:300]
            hit = None
            for k in known:
                if k.get("property") == prop and k.get("obligation") == o["id"] and k.get("match", "") in ("\n".join(body)):
                    hit = k
            if hit:
                known_hits.append((o, hit))
                continue
            path = write_replay(prop, o, "\n".join(body) + "\n")
            violations.append((o, path, no_input, desc))

        status = 0
        for o, hit in known_hits:
            print("KNOWN-FINDING: property=%s %s" % (prop, hit["line"]))
        if undecided and not violations:
            status = 2
        for o, path, no_input, desc in violations:
            print("VIOLATION property=%s replay=%s obligation=%s %s%s" % (
                prop, path, o["id"], json.dumps(desc[:200]), " no-failing-input-found" if no_input else ""))
            status = 1
        if status == 2:
            for u in undecided[:10]:
                print("UNDECIDED %s" % u)
    finally:
        if scratch and not keep:
            shutil.rmtree(scratch, ignore_errors=True)
        elif scratch:
            log("scratch kept at %s" % scratch)

    wall = time.time() - t0
    if os.environ.get("VERIF_VERBOSE"):
        for (oid, ft), ent in sorted(results.items()):
            log("   %-40s %-14s %-9s %6ss checks=%s %s" % (oid, ft, ent["status"], ent.get("duration_s"), ent.get("n_checks"), (ent.get("why") or "")[:150]))
    if write_evidence:
        write_evidence_file(prop, tier, seed, level, meta, results, cmds, info, wall, violations, undecided)
    n_ok = sum(1 for e in results.values() if e["status"] == "ok")
    log("%s %s: %d/%d obligations discharged, %d violated, %d undecided, %.1fs" % (
        prop, tier, n_ok, len(results), len(violations), len([e for e in results.values() if e["status"] == "undecided"]), wall))
    return status


def write_evidence_file(prop, tier, seed, level, meta, results, cmds, info, wall, violations, undecided):
    os.makedirs(EVID, exist_ok=True)
    by_strength = {}
    disc_by_strength = {}
    samples = []
    funcs = set()
    solver = 0.0
    checks_total = 0
    backends = {}
    for (oid, ft), ent in sorted(results.items()):
        o = ent["ob"]
        by_strength[o["strength"]] = by_strength.get(o["strength"], 0) + 1
        if ent["status"] == "ok":
            disc_by_strength[o["strength"]] = disc_by_strength.get(o["strength"], 0) + 1
        funcs.update(o.get("functions", []))
        solver += ent.get("solver_s") or 0.0
        checks_total += ent.get("n_checks", 0) or 0
        be = {"kani": "Kani 0.68 / CBMC 6.11 / CaDiCaL", "verus": "Verus 0.2026.09.13 / Z3", "static": "goto-instrument / rustc front end"}[o["engine"]]
        backends[be] = backends.get(be, 0) + 1
        samples.append({"obligation": oid, "features": ft, "engine": o["engine"], "strength": o["strength"],
                        "bound": o.get("bound"), "functions": o.get("functions", []), "contract": o["contract"],
                        "status": ent["status"], "cbmc_checks": ent.get("n_checks"), "covers_satisfied": ent.get("n_covers"),
                        "time_s": ent.get("duration_s"), "solver_s": ent.get("solver_s"),
                        **({"detail": ent.get("why") or ent.get("note")} if ent.get("why") or ent.get("note") else {}),
                        **({"counts": ent["counts"]} if "counts" in ent else {})})
    n = len(results)
    n_ok = sum(1 for e in results.values() if e["status"] == "ok")
    trusted = list(meta.get("trusted_base", [])) + OB.COMMON_TRUSTED + verif_scan_cache()
    cov = {
        "obligations": n,
        "discharged": n_ok,
        "checker_cmd": " ;; ".join(cmds)[:6000] if cmds else "n/a",
        "trusted_base": trusted,
        "samples": samples,
        "by_strength": {"registered": by_strength, "discharged": disc_by_strength,
                        "legend": "proved = all inputs, no bound (loop-free harness over the full symbolic domain, or finite set fully computed); "
                                  "capacity = loops unwound to the structural capacity with unwinding assertions; "
                                  "bounded = bounded stand-in, bound stated per obligation, NOT counted as proved"},
        "functions_under_contract": sorted(funcs),
        "back_ends": backends,
        "solver_time_s": round(solver, 2),
        "cbmc_properties_checked": checks_total,
        "undecided": undecided[:20],
        "sources_sha256": info.get("sources_sha256", {}),
        "text_added_to_scratch_copy": info.get("added", []),
        "exhaustive": False,
        "explanation": meta.get("explanation", ""),
    }
    ev = {
        "property_id": prop,
        "tier": tier,
        "seed": seed,
        "level": level,
        "coverage": cov,
        "assumptions": list(meta.get("assumptions", [])) + OB.COMMON_ASSUMPTIONS,
        "wall_s": round(wall, 2),
        "violations": len(violations),
    }
    with open(os.path.join(EVID, prop + ".json"), "w") as f:
        json.dump(ev, f, indent=1, default=str)


_scan = None


def verif_scan_cache():
    global _scan
    if _scan is None:
        _scan = verif.sys and scan_trusted()
    return _scan


def replay(path):
    """Re-run the obligation named in a replay file against the current /repo tree."""
    head = open(path).readline()
    m = re.search(r"property=(\S+)\s+obligation=(\S+)", head)
    if not m:
        print("not a replay file")
        return 2
    prop, oid = m.group(1), m.group(2)
    return check_property(prop, "thorough", 0, only=oid, write_evidence=False)
