// Inductive lemmas over the scalar step contracts (property C12); appended to the Verus prelude by lib/tables.py

pub open spec fn base() -> int { 0x1_0000_0000_0000_0000int }

/// little-endian value of a limb sequence
pub open spec fn val(s: Seq<u64>) -> int
    decreases s.len()
{
    if s.len() == 0 { 0int } else { s[0] as int + base() * val(s.subrange(1, s.len() as int)) }
}

pub open spec fn bpow(n: nat) -> int
    decreases n
{
    if n == 0 { 1int } else { base() * bpow((n - 1) as nat) }
}

/// contract of one `scalar_mul(x_i, y, carry)` / `scalar_add` step (obligations c12_scalar_mul / c12_scalar_add,
/// proved by Kani for all u64 operands): out_i + 2^64 * c_{i+1} == x_i * y + c_i
pub open spec fn step_chain(x: Seq<u64>, out: Seq<u64>, c: Seq<int>, y: int) -> bool {
    &&& out.len() == x.len()
    &&& c.len() == x.len() + 1
    &&& forall|i: int| 0 <= i < x.len() ==> (#[trigger] out[i]) as int + base() * c[i + 1] == (x[i] as int) * y + c[i]
}

proof fn lemma_distribute(a: int, b: int, c: int, d: int, y: int, p: int)
    ensures
        base() * (a * y + b - p * d) == base() * a * y + base() * b - base() * p * d,
        (c + base() * a) * y == c * y + base() * a * y,
{
    assert(base() * (a * y + b - p * d) == base() * a * y + base() * b - base() * p * d) by (nonlinear_arith);
    assert((c + base() * a) * y == c * y + base() * a * y) by (nonlinear_arith);
}

/// IND-SMALL-MUL: for EVERY length, chaining the step contract over all limbs in order gives
/// val(out) + 2^(64 n) * c_n == val(x) * y + c_0   (exact natural-number arithmetic)
pub proof fn lemma_small_mul_chain(x: Seq<u64>, out: Seq<u64>, c: Seq<int>, y: int)
    requires step_chain(x, out, c, y),
    ensures val(out) + bpow(x.len()) * c[x.len() as int] == val(x) * y + c[0],
    decreases x.len(),
{
    if x.len() == 0 {
        assert(val(out) == 0);
        assert(val(x) == 0);
        assert(bpow(0) == 1);
        assert(val(x) * y == 0) by (nonlinear_arith) requires val(x) == 0;
        assert(bpow(0) * c[0] == c[0]) by (nonlinear_arith) requires bpow(0) == 1;
    } else {
        let n = x.len() as int;
        let xt = x.subrange(1, n);
        let ot = out.subrange(1, n);
        let ct = c.subrange(1, n + 1);
        assert forall|i: int| 0 <= i < xt.len() implies (#[trigger] ot[i]) as int + base() * ct[i + 1] == (xt[i] as int) * y + ct[i] by {
            assert(ot[i] == out[i + 1]);
            assert(xt[i] == x[i + 1]);
            assert(ct[i] == c[i + 1]);
            assert(ct[i + 1] == c[i + 2]);
        }
        lemma_small_mul_chain(xt, ot, ct, y);
        assert(ct[xt.len() as int] == c[n]);
        assert(ct[0] == c[1]);
        // induction hypothesis: val(ot) == val(xt)*y + c[1] - bpow(n-1)*c[n]
        let p = bpow((n - 1) as nat);
        assert(bpow(n as nat) == base() * p);
        assert(val(ot) == val(xt) * y + c[1] - p * c[n]);
        assert(out[0] as int + base() * c[1] == (x[0] as int) * y + c[0]);
        lemma_distribute(val(xt), c[1], x[0] as int, c[n], y, p);
        assert(val(out) == out[0] as int + base() * val(ot));
        assert(val(x) == x[0] as int + base() * val(xt));
        assert(base() * p * c[n] == bpow(n as nat) * c[n]) by (nonlinear_arith) requires bpow(n as nat) == base() * p;
    }
}

/// pushing a limb on top adds limb * 2^(64 n)
pub proof fn lemma_val_push(s: Seq<u64>, top: u64)
    ensures val(s.push(top)) == val(s) + bpow(s.len()) * (top as int),
    decreases s.len(),
{
    let t = s.push(top);
    if s.len() == 0 {
        assert(t.subrange(1, 1) =~= Seq::<u64>::empty());
        assert(val(t.subrange(1, 1)) == 0);
        assert(val(t) == top as int + base() * 0);
        assert(bpow(0) * (top as int) == top as int) by (nonlinear_arith) requires bpow(0) == 1;
    } else {
        let n = s.len() as int;
        let st = s.subrange(1, n);
        assert(t.subrange(1, n + 1) =~= st.push(top));
        lemma_val_push(st, top);
        let p = bpow((n - 1) as nat);
        assert(base() * (val(st) + p * (top as int)) == base() * val(st) + base() * p * (top as int)) by (nonlinear_arith);
        assert(base() * p * (top as int) == bpow(n as nat) * (top as int)) by (nonlinear_arith) requires bpow(n as nat) == base() * p;
    }
}

/// whole `small_mul` / `small_add` contract for every length: after the loop, pushing the
/// final carry (a limb) yields exactly x * y + carry_in; a zero carry may be omitted.
pub proof fn lemma_small_mul_total(x: Seq<u64>, out: Seq<u64>, c: Seq<int>, y: int, top: u64)
    requires step_chain(x, out, c, y), c[x.len() as int] == top as int,
    ensures
        val(out.push(top)) == val(x) * y + c[0],
        top == 0 ==> val(out) == val(x) * y + c[0],
{
    lemma_small_mul_chain(x, out, c, y);
    lemma_val_push(out, top);
    assert(top == 0 ==> bpow(x.len()) * (top as int) == 0) by (nonlinear_arith);
}

/// trailing zero limbs do not change the value (normalize)
pub proof fn lemma_val_trailing_zero(s: Seq<u64>)
    ensures val(s.push(0u64)) == val(s),
{
    lemma_val_push(s, 0u64);
    assert(bpow(s.len()) * (0u64 as int) == 0) by (nonlinear_arith);
}

/// shifting by whole limbs multiplies by 2^(64 k) (shl_limbs)
pub proof fn lemma_val_shl_limbs(s: Seq<u64>, k: nat)
    ensures val(Seq::new(k, |i: int| 0u64) + s) == bpow(k) * val(s),
    decreases k,
{
    let z = Seq::new(k, |i: int| 0u64);
    let t = z + s;
    if k == 0 {
        assert(t =~= s);
        assert(bpow(0) * val(s) == val(s)) by (nonlinear_arith) requires bpow(0) == 1;
    } else {
        let z1 = Seq::new((k - 1) as nat, |i: int| 0u64);
        assert(t.subrange(1, t.len() as int) =~= z1 + s);
        lemma_val_shl_limbs(s, (k - 1) as nat);
        assert(t[0] == 0u64);
        let p = bpow((k - 1) as nat);
        assert(base() * (p * val(s)) == bpow(k) * val(s)) by (nonlinear_arith) requires bpow(k) == base() * p;
    }
}

